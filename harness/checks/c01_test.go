package checks

import (
	"bytes"
	"encoding/binary"
	"fmt"
	"github.com/contiv/libOpenflow/common"
	"sort"
	"strings"
	"testing"

	"github.com/contiv/libOpenflow/util"
	"pgregory.net/rapid"
	"verifharness/ev"
	"verifharness/gen"
	"verifharness/spec"
)

// C01, C02, C03 share one engine: build a controller-originated message
// through the API (dual construction), encode it with the library, and judge
// the bytes with the independent wire model.
//
//	C01: version / type / header length = bytes = Len()
//	C02: strict TLV walk by declared lengths (spec.Decode)
//	C03: decoded tree == the tree denoted by the constructor arguments

func drawBudget(rt *rapid.T) int {
	big := 12
	if ev.Thorough() {
		big = 5
	}
	switch c := gen.Pick(rt, "size_class", big+1); {
	case c == 0:
		return rapid.IntRange(30000, 65000).Draw(rt, "budget_big")
	case c <= 2:
		return rapid.IntRange(2048, 12000).Draw(rt, "budget_mid")
	default:
		return rapid.IntRange(256, 2048).Draw(rt, "budget_small")
	}
}

type builtMsg struct {
	m      util.Message
	tree   *spec.Node
	kind   string
	labels map[string]int
}

func buildMessage(rt *rapid.T, avoid map[string]bool) builtMsg {
	if len(avoid) == 0 && gen.Pick(rt, "from_decoded_parts", 10) == 0 {
		if bm, ok := transplantMessage(rt); ok {
			return bm
		}
	}
	g := gen.New(rt, drawBudget(rt))
	for k := range avoid {
		g.Avoid[k] = true
	}
	m, n, kind := g.Message()
	return builtMsg{m, n, kind, g.Labels}
}

func addLabels(c *ev.Collector, labels map[string]int) {
	for l, k := range labels {
		c.LabelN(l, int64(k))
	}
}

func labelKeys(labels map[string]int) string {
	var s []string
	for l := range labels {
		s = append(s, l)
	}
	sort.Strings(s)
	return strings.Join(s, ",")
}

// msgClass: kind plus the shape that matters for signatures.
func msgClass(bm builtMsg) string {
	k := bm.kind
	if bm.labels["delete_with_children"] > 0 {
		k += "(delete_with_children)"
	}
	return k
}

func sampleOf(bm builtMsg, b []byte) map[string]any {
	return map[string]any{"kind": bm.kind, "tree": clip(bm.tree.String(), 700), "bytes": len(b), "hex": clipHex(b, 96)}
}

// tail2 keeps the last two elements of a kind path: signatures name the
// innermost element and its parent, so that the same defect has the same
// signature whether or not the message sits inside a bundle.
func tail2(path string) string {
	parts := strings.Split(strings.Trim(path, "/"), "/")
	if len(parts) > 2 {
		parts = parts[len(parts)-2:]
	}
	return strings.Join(parts, "/")
}

func clip(s string, n int) string {
	if len(s) > n {
		return s[:n] + "..."
	}
	return s
}

func clipHex(b []byte, n int) string {
	if len(b) > n {
		return fmt.Sprintf("%x...(%d bytes)", b[:n], len(b))
	}
	return fmt.Sprintf("%x", b)
}

func TestC01(t *testing.T) {
	c := ev.For("C01")
	defer c.Done()
	c.Rule("rapid: build programs for every controller-originated kind (hello, echo request/reply, features/get-config/barrier requests, set-config, " +
		"flow-mod x5 commands, group-mod x3 commands x4 types, packet-out, port-mod, multipart requests desc/flow/aggregate/table/port/queue, " +
		"NX set-controller-id / TLV-table mod / TLV-table request, bundle control, bundle add wrapping any of the former), nested lists of 0,1,2,several,many " +
		"elements up to the 64 KiB frame limit. Oracle: byte0==4, byte1==type(kind), be16(bytes[2:4])==len(bytes)==Len() before and after encoding. " +
		"Non-trivial: the message has >=1 nested element, is a delete command carrying instructions/buckets, or is a bundle; distinct by hash of the bytes.")
	c.Assume("generator preconditions of DESIGN.md Appendix B (bottom-up construction, caller-maintained Length fields, message fits 65535 bytes by the model's sizes)")
	regressC01(t, c)
	checkRapid(t, c, func(rt *rapid.T) {
		// framing is a question about the message's own size and header, so the histories in which a nested
		// action grows after it was attached (where the library sizes containers when asked) are in scope here
		g := gen.New(rt, drawBudget(rt))
		g.LateGrowth = true
		// a controller that also talks to peers of other protocol versions builds hellos for them (the
		// constructor takes the version): what the OpenFlow 1.3 constructors stamp afterwards is still 1.3
		if gen.Pick(rt, "foreign_hello_first", 6) == 0 {
			common.NewHello([]int{1, 2, 3, 5, 6}[gen.Pick(rt, "foreign_version", 5)])
			c.Label("hello_for_another_version_built_first")
		}
		m, n, kind := g.Message()
		bm := builtMsg{m, n, kind, g.Labels}
		if gen.Pick(rt, "from_decoded_parts", 10) == 0 {
			if tb, ok := transplantMessage(rt); ok {
				bm = tb // a flow-mod / group-mod / packet-out put together from decoded parts (transplant_test.go)
			}
		}
		c.Eval()
		addLabels(c, bm.labels)
		c.Label("kind=" + bm.kind)
		checkFraming(c, rt, bm)
		// The bytes are what gets queued and written later: they must still be the same framed message after
		// other messages have been encoded in the meantime (a batch, a send queue, another connection).
		if gen.Pick(rt, "later_encodes", 3) == 0 {
			b1, fr, _ := safeMarshal(bm.m)
			if fr != "" || len(b1) < 8 {
				return
			}
			keep := append([]byte{}, b1...)
			for i, k := 0, 1+gen.Pick(rt, "n_later", 3); i < k; i++ {
				g2 := gen.New(rt, drawBudget(rt))
				var m2 util.Message
				if gen.Pick(rt, "other_kind", 2) == 0 || strings.Contains(bm.kind, "(from decoded parts)") {
					m2, _, _ = g2.Message()
				} else {
					m2, _ = g2.MessageOf(bm.kind)
				}
				safeMarshal(m2)
			}
			c.Label("encoding_rechecked_after_later_encodes")
			if !bytes.Equal(b1, keep) {
				c.Report(rt, "C01|"+msgClass(bm)+"|encoding-changed-by-later-encode", fmt.Sprintf("the bytes returned for a %s changed while other messages were encoded: header now %x (length field %d, %d bytes), was %x",
					bm.kind, b1[:8], binary.BigEndian.Uint16(b1[2:]), len(b1), keep[:8]), map[string]any{"kind": bm.kind, "hex": hx(keep)})
			}
		}
	})
}

func checkFraming(c *ev.Collector, t ev.Fataler, bm builtMsg) {
	cls := msgClass(bm)
	l0, lf := safeLen(bm.m)
	if lf != "" {
		c.Report(t, "C01|"+cls+"|Len-panic|"+lf, "Len() panicked for "+clip(bm.tree.String(), 400), bm.tree.String())
		return
	}
	b, frame, msg := safeMarshal(bm.m)
	if frame != "" {
		c.Report(t, "C01|"+cls+"|encode-panic|"+frame, msg+" :: "+clip(bm.tree.String(), 400), bm.tree.String())
		return
	}
	l1, _ := safeLen(bm.m)
	nodes, _ := bm.tree.Count()
	if nodes > 1 || bm.labels["delete_with_children"] > 0 || strings.HasPrefix(bm.kind, "bundle") {
		c.NonTrivial(ev.Hash64(b))
	}
	if len(b) > 32768 {
		c.Label("frame>32KiB")
	} else if len(b) > 2048 {
		c.Label("frame>2KiB")
	}
	if c.WantSample() {
		c.Sample(sampleOf(bm, b))
	}
	rep := map[string]any{"kind": bm.kind, "tree": bm.tree.String(), "hex": hx(b)}
	if len(b) < 8 {
		c.Report(t, "C01|"+cls+"|short", fmt.Sprintf("%d bytes produced", len(b)), rep)
		return
	}
	if b[0] != 4 {
		c.Report(t, "C01|"+cls+"|version", fmt.Sprintf("version byte %d, want 4; header %x", b[0], b[:8]), rep)
	}
	if want := spec.MsgType(bm.tree.Kind); int(b[1]) != want {
		c.Report(t, "C01|"+cls+"|type", fmt.Sprintf("type byte %d, want %d; header %x", b[1], want, b[:8]), rep)
	}
	hl := int(binary.BigEndian.Uint16(b[2:]))
	if hl != len(b) {
		c.Report(t, "C01|"+cls+"|header-length", fmt.Sprintf("header length %d, %d bytes produced", hl, len(b)), rep)
	}
	if l0 != len(b) || l1 != len(b) {
		c.Report(t, "C01|"+cls+"|Len", fmt.Sprintf("Len() %d before / %d after encoding, %d bytes produced", l0, l1, len(b)), rep)
	}
	// the model's encoding of the denoted message has the size the peer will expect
	if want := len(spec.Encode(bm.tree)); want != len(b) && hl == len(b) {
		// sizes that differ while the framing is self-consistent are C02/C03's business
		c.Label("size_differs_from_model")
	}
}

func TestC02(t *testing.T) {
	c := ev.For("C02")
	defer c.Done()
	c.Rule("rapid: C01's messages plus stand-alone elements (action, instruction, bucket, match, match field) plus builder histories " +
		"(TestC02Histories). Oracle: spec.Decode in strict mode - an independent TLV walker written from OF1.3.5 / nicira-ext.h / meta-flow.h / EXT-230 " +
		"that advances only by declared lengths and rejects wrong lengths, missing 8-byte alignment, non-zero padding and codes outside the tables. " +
		"Non-trivial: >=2 nested elements of different kinds, or a variable-size action, or nesting depth >=3, or a prepend; distinct by hash of the bytes.")
	c.Assume("the wire model (harness/spec, DESIGN.md Appendix A) is my transcription of the specifications; it is self-tested (Decode(Encode(t))==t) in TestModelSpecSelf",
		"tun_metadata is variable-width: any payload of 1..124 bytes is accepted; the zero padding after a bundled message and after each bundle property is demanded (ONF EXT-230 / OF1.4 ofp_bundle_add_msg, ofp_bundle_prop_experimenter)")
	regressC02(t, c)
	checkRapid(t, c, func(rt *rapid.T) {
		c.Eval()
		if gen.Pick(rt, "standalone", 4) == 0 {
			checkStandaloneWalk(c, rt)
			return
		}
		bm := buildMessage(rt, nil)
		addLabels(c, bm.labels)
		c.Label("kind=" + bm.kind)
		checkWalk(c, rt, bm)
	})
}

func nontrivialC02(tree *spec.Node, labels map[string]int) bool {
	kinds := map[string]bool{}
	variable := false
	tree.Walk(func(n *spec.Node) {
		kinds[n.Kind] = true
		switch n.Kind {
		case "nx.note", "nx.learn", "nx.nat", "nx.ct", "nx.reg_load2", "act.set_field", "nx.dec_ttl_cnt_ids":
			variable = true
		}
	})
	_, depth := tree.Count()
	return len(kinds) >= 3 || variable || depth >= 3 || labels["prepend"] > 0
}

func checkWalk(c *ev.Collector, t ev.Fataler, bm builtMsg) {
	cls := msgClass(bm)
	b, frame, msg := safeMarshal(bm.m)
	if frame != "" {
		c.Report(t, "C02|"+cls+"|encode-panic|"+frame, msg+" :: "+clip(bm.tree.String(), 400), bm.tree.String())
		return
	}
	if nontrivialC02(bm.tree, bm.labels) {
		c.NonTrivial(ev.Hash64(b))
	}
	if c.WantSample() {
		c.Sample(sampleOf(bm, b))
	}
	_, _, err := spec.Decode(b)
	if err == nil {
		return
	}
	e := err.(*spec.Err)
	if strings.HasSuffix(e.Path, "msg") && !strings.Contains(e.Path, "bundle_add") {
		// the top-level framing itself is broken: C01's business, the walk cannot start
		c.Excluded("top-level framing broken (C01)")
		return
	}
	c.Report(t, "C02|"+tail2(e.Path)+"|"+e.Sym, e.Detail+" :: "+clip(bm.tree.String(), 500)+" :: "+hx(b),
		map[string]any{"kind": bm.kind, "tree": bm.tree.String(), "hex": hx(b)})
}

func checkStandaloneWalk(c *ev.Collector, rt *rapid.T) {
	g := gen.New(rt, drawBudget(rt))
	var m util.Message
	var n *spec.Node
	var ek string
	switch gen.Pick(rt, "elem", 5) {
	case 0:
		a, an, name := g.Action()
		m, n, ek = a, an, "action"
		c.Label("standalone_action=" + name)
	case 1:
		i, in, name := g.Instr()
		m, n, ek = i, in, "instr"
		c.Label("standalone_instr=" + name)
	case 2:
		b, bn := g.Bucket()
		m, n, ek = b, bn, "bucket"
		c.Label("standalone_bucket")
	case 3:
		mt, mn := g.Match(14)
		m, n, ek = mt, mn, "match"
		c.Label("standalone_match")
	case 4:
		f, fn, name := g.Field()
		m, n, ek = f, fn, "oxm"
		c.Label("standalone_field=" + name)
	}
	addLabels(c, g.Labels)
	b, frame, msg := safeMarshal(m)
	if frame != "" {
		c.Report(rt, "C02|"+n.Kind+"|encode-panic|"+frame, msg+" :: "+clip(n.String(), 400), n.String())
		return
	}
	if nontrivialC02(n, g.Labels) {
		c.NonTrivial(ev.Hash64(b))
	}
	if _, err := spec.DecodeElement(ek, b); err != nil {
		e := err.(*spec.Err)
		c.Report(rt, "C02|"+tail2(e.Path)+"|"+e.Sym, e.Detail+" :: "+clip(n.String(), 500)+" :: "+hx(b), map[string]any{"elem": ek, "tree": n.String(), "hex": hx(b)})
	}
}

func TestC03(t *testing.T) {
	c := ev.For("C03")
	defer c.Done()
	c.Rule("rapid, dual construction: every constructor argument / exported field drawn over its full width with boundary bias; the generator " +
		"returns the library value and the spec tree the arguments denote. Oracle: spec.Decode(library bytes) must equal that tree (field values, " +
		"optional-part presence, list order); the first differing path is reported. Non-trivial: the tree has >=3 nodes or an optional part; distinct by hash of the bytes.")
	c.Assume("the wire model (harness/spec) and the generator's knowledge of what each constructor denotes (e.g. NewVlanIdField(v) denotes OFPVID_PRESENT|v) are mine",
		"a flow-mod/group-mod delete denotes a message without instructions/buckets (OF1.3.5: ignored for delete; the library's own size function excludes them)")
	regressC03(t, c)
	checkRapid(t, c, c03Prop(c))
}

func c03Prop(c *ev.Collector) func(rt *rapid.T) {
	return func(rt *rapid.T) {
		c.Eval()
		bm := buildMessage(rt, nil)
		addLabels(c, bm.labels)
		c.Label("kind=" + bm.kind)
		checkLayout(c, rt, bm)
	}
}

// FuzzC03: the same property driven by Go's coverage-guided fuzzer (rapid.MakeFuzz turns the fuzzer's
// bytes into the generators' choices); thorough tier only.
func FuzzC03(f *testing.F) {
	c := ev.For("C03")
	f.Fuzz(rapid.MakeFuzz(guardLib(c, c03Prop(c))))
}

func checkLayout(c *ev.Collector, t ev.Fataler, bm builtMsg) {
	cls := msgClass(bm)
	b, frame, msg := safeMarshal(bm.m)
	if frame != "" {
		c.Report(t, "C03|"+cls+"|encode-panic|"+frame, msg+" :: "+clip(bm.tree.String(), 400), bm.tree.String())
		return
	}
	nodes, _ := bm.tree.Count()
	if nodes >= 3 || bm.labels["nested_ct"] > 0 {
		c.NonTrivial(ev.Hash64(b))
	}
	if c.WantSample() {
		c.Sample(sampleOf(bm, b))
	}
	got, _, err := spec.Decode(b)
	if err != nil {
		c.Excluded("bytes do not walk (C01/C02): " + err.(*spec.Err).Path + "|" + err.(*spec.Err).Sym)
		return
	}
	if pc, detail := spec.Diff(bm.tree, got); pc != "" {
		c.Report(t, "C03|"+tail2(pc)+"|value-mismatch", detail+" :: want "+clip(bm.tree.String(), 400)+" :: "+hx(b),
			map[string]any{"kind": bm.kind, "tree": bm.tree.String(), "hex": hx(b)})
	}
}

// TestModelSpecSelf: the model must be self-consistent on everything the
// generators produce (Decode(Encode(t)) == t); run by `verif setup` and at the
// start of the codec checks.
func TestModelSpecSelf(t *testing.T) {
	rapid.Check(t, func(rt *rapid.T) {
		bm := buildMessage(rt, nil)
		b := spec.Encode(bm.tree)
		got, _, err := spec.Decode(b)
		if err != nil {
			rt.Fatalf("model cannot decode its own encoding: %v :: %s :: %x", err, bm.tree, b)
		}
		if pc, d := spec.Diff(bm.tree, got); pc != "" {
			rt.Fatalf("model round trip differs at %s: %s", pc, d)
		}
	})
}
