package checks

import (
	"fmt"
	"testing"

	of "github.com/contiv/libOpenflow/openflow13"
	"verifharness/ev"
)

// TestC02Constants: the exported names of the type and subtype codes. The wire
// checks of C02 see the codes the constructors stamp; callers also spell codes
// themselves (a switch over Header.Type, an action built from exported fields,
// a multipart request of a type the library has no constructor for), and for
// those the number behind the exported name is all there is. Each name is
// compared with the number OpenFlow 1.3.5 (A.2 ofp_type, ofp_action_type,
// ofp_instruction_type, ofp_multipart_type, ofp_oxm_class, oxm_ofb_match_fields)
// or Open vSwitch's nicira-ext.h / ofp-actions.c (nx_action_subtype, nxt
// message subtypes) assigns to it.
func TestC02Constants(t *testing.T) {
	c := ev.For("C02")
	defer c.Done()
	c.Rule("TestC02Constants: every exported type / subtype code constant (message types 0-29, action types, instruction types, multipart types, OXM classes and basic-class field numbers 0-43, " +
		"Nicira action subtypes 1-48, Nicira message subtypes) against the number the specifications assign; exhaustive over the table (each name once).")
	type kc struct {
		name      string
		got, want uint64
	}
	tab := []kc{
		{"Type_Hello", of.Type_Hello, 0}, {"Type_Error", of.Type_Error, 1}, {"Type_EchoRequest", of.Type_EchoRequest, 2}, {"Type_EchoReply", of.Type_EchoReply, 3},
		{"Type_Experimenter", of.Type_Experimenter, 4}, {"Type_FeaturesRequest", of.Type_FeaturesRequest, 5}, {"Type_FeaturesReply", of.Type_FeaturesReply, 6},
		{"Type_GetConfigRequest", of.Type_GetConfigRequest, 7}, {"Type_GetConfigReply", of.Type_GetConfigReply, 8}, {"Type_SetConfig", of.Type_SetConfig, 9},
		{"Type_PacketIn", of.Type_PacketIn, 10}, {"Type_FlowRemoved", of.Type_FlowRemoved, 11}, {"Type_PortStatus", of.Type_PortStatus, 12},
		{"Type_PacketOut", of.Type_PacketOut, 13}, {"Type_FlowMod", of.Type_FlowMod, 14}, {"Type_GroupMod", of.Type_GroupMod, 15}, {"Type_PortMod", of.Type_PortMod, 16},
		{"Type_TableMod", of.Type_TableMod, 17}, {"Type_MultiPartRequest", of.Type_MultiPartRequest, 18}, {"Type_MultiPartReply", of.Type_MultiPartReply, 19},
		{"Type_BarrierRequest", of.Type_BarrierRequest, 20}, {"Type_BarrierReply", of.Type_BarrierReply, 21}, {"Type_QueueGetConfigRequest", of.Type_QueueGetConfigRequest, 22},
		{"Type_QueueGetConfigReply", of.Type_QueueGetConfigReply, 23}, {"Type_RoleRequest", of.Type_RoleRequest, 24}, {"Type_RoleReply", of.Type_RoleReply, 25},
		{"Type_GetAsyncRequest", of.Type_GetAsyncRequest, 26}, {"Type_GetAsyncReply", of.Type_GetAsyncReply, 27}, {"Type_SetAsync", of.Type_SetAsync, 28}, {"Type_MeterMod", of.Type_MeterMod, 29},

		{"ActionType_Output", of.ActionType_Output, 0}, {"ActionType_CopyTtlOut", of.ActionType_CopyTtlOut, 11}, {"ActionType_CopyTtlIn", of.ActionType_CopyTtlIn, 12},
		{"ActionType_SetMplsTtl", of.ActionType_SetMplsTtl, 15}, {"ActionType_DecMplsTtl", of.ActionType_DecMplsTtl, 16}, {"ActionType_PushVlan", of.ActionType_PushVlan, 17},
		{"ActionType_PopVlan", of.ActionType_PopVlan, 18}, {"ActionType_PushMpls", of.ActionType_PushMpls, 19}, {"ActionType_PopMpls", of.ActionType_PopMpls, 20},
		{"ActionType_SetQueue", of.ActionType_SetQueue, 21}, {"ActionType_Group", of.ActionType_Group, 22}, {"ActionType_SetNwTtl", of.ActionType_SetNwTtl, 23},
		{"ActionType_DecNwTtl", of.ActionType_DecNwTtl, 24}, {"ActionType_SetField", of.ActionType_SetField, 25}, {"ActionType_PushPbb", of.ActionType_PushPbb, 26},
		{"ActionType_PopPbb", of.ActionType_PopPbb, 27}, {"ActionType_Experimenter", of.ActionType_Experimenter, 0xffff},

		{"InstrType_GOTO_TABLE", of.InstrType_GOTO_TABLE, 1}, {"InstrType_WRITE_METADATA", of.InstrType_WRITE_METADATA, 2}, {"InstrType_WRITE_ACTIONS", of.InstrType_WRITE_ACTIONS, 3},
		{"InstrType_APPLY_ACTIONS", of.InstrType_APPLY_ACTIONS, 4}, {"InstrType_CLEAR_ACTIONS", of.InstrType_CLEAR_ACTIONS, 5}, {"InstrType_METER", of.InstrType_METER, 6},
		{"InstrType_EXPERIMENTER", of.InstrType_EXPERIMENTER, 0xffff},

		{"MultipartType_Desc", of.MultipartType_Desc, 0}, {"MultipartType_Flow", of.MultipartType_Flow, 1}, {"MultipartType_Aggregate", of.MultipartType_Aggregate, 2},
		{"MultipartType_Table", of.MultipartType_Table, 3}, {"MultipartType_Port", of.MultipartType_Port, 4}, {"MultipartType_Queue", of.MultipartType_Queue, 5},
		{"MultipartType_Group", of.MultipartType_Group, 6}, {"MultipartType_GroupDesc", of.MultipartType_GroupDesc, 7}, {"MultipartType_GroupFeatures", of.MultipartType_GroupFeatures, 8},
		{"MultipartType_Meter", of.MultipartType_Meter, 9}, {"MultipartType_MeterConfig", of.MultipartType_MeterConfig, 10}, {"MultipartType_MeterFeatures", of.MultipartType_MeterFeatures, 11},
		{"MultipartType_TableFeatures", of.MultipartType_TableFeatures, 12}, {"MultipartType_PortDesc", of.MultipartType_PortDesc, 13}, {"MultipartType_Experimenter", of.MultipartType_Experimenter, 0xffff},

		{"OXM_CLASS_NXM_0", of.OXM_CLASS_NXM_0, 0}, {"OXM_CLASS_NXM_1", of.OXM_CLASS_NXM_1, 1}, {"OXM_CLASS_OPENFLOW_BASIC", of.OXM_CLASS_OPENFLOW_BASIC, 0x8000}, {"OXM_CLASS_EXPERIMENTER", of.OXM_CLASS_EXPERIMENTER, 0xffff},
		{"OXM_FIELD_IN_PORT", of.OXM_FIELD_IN_PORT, 0}, {"OXM_FIELD_IN_PHY_PORT", of.OXM_FIELD_IN_PHY_PORT, 1}, {"OXM_FIELD_METADATA", of.OXM_FIELD_METADATA, 2}, {"OXM_FIELD_ETH_DST", of.OXM_FIELD_ETH_DST, 3},
		{"OXM_FIELD_ETH_SRC", of.OXM_FIELD_ETH_SRC, 4}, {"OXM_FIELD_ETH_TYPE", of.OXM_FIELD_ETH_TYPE, 5}, {"OXM_FIELD_VLAN_VID", of.OXM_FIELD_VLAN_VID, 6}, {"OXM_FIELD_VLAN_PCP", of.OXM_FIELD_VLAN_PCP, 7},
		{"OXM_FIELD_IP_DSCP", of.OXM_FIELD_IP_DSCP, 8}, {"OXM_FIELD_IP_ECN", of.OXM_FIELD_IP_ECN, 9}, {"OXM_FIELD_IP_PROTO", of.OXM_FIELD_IP_PROTO, 10}, {"OXM_FIELD_IPV4_SRC", of.OXM_FIELD_IPV4_SRC, 11},
		{"OXM_FIELD_IPV4_DST", of.OXM_FIELD_IPV4_DST, 12}, {"OXM_FIELD_TCP_SRC", of.OXM_FIELD_TCP_SRC, 13}, {"OXM_FIELD_TCP_DST", of.OXM_FIELD_TCP_DST, 14}, {"OXM_FIELD_UDP_SRC", of.OXM_FIELD_UDP_SRC, 15},
		{"OXM_FIELD_UDP_DST", of.OXM_FIELD_UDP_DST, 16}, {"OXM_FIELD_SCTP_SRC", of.OXM_FIELD_SCTP_SRC, 17}, {"OXM_FIELD_SCTP_DST", of.OXM_FIELD_SCTP_DST, 18}, {"OXM_FIELD_ICMPV4_TYPE", of.OXM_FIELD_ICMPV4_TYPE, 19},
		{"OXM_FIELD_ICMPV4_CODE", of.OXM_FIELD_ICMPV4_CODE, 20}, {"OXM_FIELD_ARP_OP", of.OXM_FIELD_ARP_OP, 21}, {"OXM_FIELD_ARP_SPA", of.OXM_FIELD_ARP_SPA, 22}, {"OXM_FIELD_ARP_TPA", of.OXM_FIELD_ARP_TPA, 23},
		{"OXM_FIELD_ARP_SHA", of.OXM_FIELD_ARP_SHA, 24}, {"OXM_FIELD_ARP_THA", of.OXM_FIELD_ARP_THA, 25}, {"OXM_FIELD_IPV6_SRC", of.OXM_FIELD_IPV6_SRC, 26}, {"OXM_FIELD_IPV6_DST", of.OXM_FIELD_IPV6_DST, 27},
		{"OXM_FIELD_IPV6_FLABEL", of.OXM_FIELD_IPV6_FLABEL, 28}, {"OXM_FIELD_ICMPV6_TYPE", of.OXM_FIELD_ICMPV6_TYPE, 29}, {"OXM_FIELD_ICMPV6_CODE", of.OXM_FIELD_ICMPV6_CODE, 30},
		{"OXM_FIELD_IPV6_ND_TARGET", of.OXM_FIELD_IPV6_ND_TARGET, 31}, {"OXM_FIELD_IPV6_ND_SLL", of.OXM_FIELD_IPV6_ND_SLL, 32}, {"OXM_FIELD_IPV6_ND_TLL", of.OXM_FIELD_IPV6_ND_TLL, 33},
		{"OXM_FIELD_MPLS_LABEL", of.OXM_FIELD_MPLS_LABEL, 34}, {"OXM_FIELD_MPLS_TC", of.OXM_FIELD_MPLS_TC, 35}, {"OXM_FIELD_MPLS_BOS", of.OXM_FIELD_MPLS_BOS, 36}, {"OXM_FIELD_PBB_ISID", of.OXM_FIELD_PBB_ISID, 37},
		{"OXM_FIELD_TUNNEL_ID", of.OXM_FIELD_TUNNEL_ID, 38}, {"OXM_FIELD_IPV6_EXTHDR", of.OXM_FIELD_IPV6_EXTHDR, 39}, {"OXM_FIELD_PBB_UCA", of.OXM_FIELD_PBB_UCA, 41}, {"OXM_FIELD_TCP_FLAGS", of.OXM_FIELD_TCP_FLAGS, 42},
		{"OXM_FIELD_ACTSET_OUTPUT", of.OXM_FIELD_ACTSET_OUTPUT, 43},

		{"NXAST_RESUBMIT", of.NXAST_RESUBMIT, 1}, {"NXAST_SET_TUNNEL", of.NXAST_SET_TUNNEL, 2}, {"NXAST_DROP_SPOOFED_ARP", of.NXAST_DROP_SPOOFED_ARP, 3}, {"NXAST_SET_QUEUE", of.NXAST_SET_QUEUE, 4},
		{"NXAST_POP_QUEUE", of.NXAST_POP_QUEUE, 5}, {"NXAST_REG_MOVE", of.NXAST_REG_MOVE, 6}, {"NXAST_REG_LOAD", of.NXAST_REG_LOAD, 7}, {"NXAST_NOTE", of.NXAST_NOTE, 8},
		{"NXAST_SET_TUNNEL_V6", of.NXAST_SET_TUNNEL_V6, 9}, {"NXAST_MULTIPATH", of.NXAST_MULTIPATH, 10}, {"NXAST_AUTOPATH", of.NXAST_AUTOPATH, 11}, {"NXAST_BUNDLE", of.NXAST_BUNDLE, 12},
		{"NXAST_BUNDLE_LOAD", of.NXAST_BUNDLE_LOAD, 13}, {"NXAST_RESUBMIT_TABLE", of.NXAST_RESUBMIT_TABLE, 14}, {"NXAST_OUTPUT_REG", of.NXAST_OUTPUT_REG, 15}, {"NXAST_LEARN", of.NXAST_LEARN, 16},
		{"NXAST_EXIT", of.NXAST_EXIT, 17}, {"NXAST_DEC_TTL", of.NXAST_DEC_TTL, 18}, {"NXAST_FIN_TIMEOUT", of.NXAST_FIN_TIMEOUT, 19}, {"NXAST_CONTROLLER", of.NXAST_CONTROLLER, 20},
		{"NXAST_DEC_TTL_CNT_IDS", of.NXAST_DEC_TTL_CNT_IDS, 21}, {"NXAST_PUSH_MPLS", of.NXAST_PUSH_MPLS, 23}, {"NXAST_POP_MPLS", of.NXAST_POP_MPLS, 24}, {"NXAST_SET_MPLS_TTL", of.NXAST_SET_MPLS_TTL, 25},
		{"NXAST_DEC_MPLS_TTL", of.NXAST_DEC_MPLS_TTL, 26}, {"NXAST_STACK_PUSH", of.NXAST_STACK_PUSH, 27}, {"NXAST_STACK_POP", of.NXAST_STACK_POP, 28}, {"NXAST_SAMPLE", of.NXAST_SAMPLE, 29},
		{"NXAST_SET_MPLS_LABEL", of.NXAST_SET_MPLS_LABEL, 30}, {"NXAST_SET_MPLS_TC", of.NXAST_SET_MPLS_TC, 31}, {"NXAST_OUTPUT_REG2", of.NXAST_OUTPUT_REG2, 32}, {"NXAST_REG_LOAD2", of.NXAST_REG_LOAD2, 33},
		{"NXAST_CONJUNCTION", of.NXAST_CONJUNCTION, 34}, {"NXAST_CT", of.NXAST_CT, 35}, {"NXAST_NAT", of.NXAST_NAT, 36}, {"NXAST_CONTROLLER2", of.NXAST_CONTROLLER2, 37},
		{"NXAST_SAMPLE2", of.NXAST_SAMPLE2, 38}, {"NXAST_OUTPUT_TRUNC", of.NXAST_OUTPUT_TRUNC, 39}, {"NXAST_CT_CLEAR", of.NXAST_CT_CLEAR, 43}, {"NXAST_CT_RESUBMIT", of.NXAST_CT_RESUBMIT, 44},
		{"NXAST_RAW_ENCAP", of.NXAST_RAW_ENCAP, 46}, {"NXAST_RAW_DECAP", of.NXAST_RAW_DECAP, 47}, {"NXAST_DEC_NSH_TTL", of.NXAST_DEC_NSH_TTL, 48},

		// nicira-ext.h enum nicira_type
		{"Type_SetFlowFormat", of.Type_SetFlowFormat, 12}, {"Type_FlowModTableId", of.Type_FlowModTableId, 15}, {"Type_SetPacketInFormat", of.Type_SetPacketInFormat, 16},
		{"Type_SetControllerId", of.Type_SetControllerId, 20}, {"Type_TlvTableMod", of.Type_TlvTableMod, 24}, {"Type_TlvTableRequest", of.Type_TlvTableRequest, 25},
		{"Type_TlvTableReply", of.Type_TlvTableReply, 26}, {"Type_Resume", of.Type_Resume, 28}, {"Type_CtFlushZone", of.Type_CtFlushZone, 29},
	}
	if !shard0() {
		return
	}
	for _, k := range tab {
		c.Eval()
		c.NonTrivial(ev.HashStr("const", k.name))
		if k.got != k.want {
			c.Report(nil, "C02|constant|"+k.name, fmt.Sprintf("%s = %d, the specification says %d", k.name, k.got, k.want), k.name)
		}
	}
	c.Exhaustive(fmt.Sprintf("%d exported type / subtype code constants", len(tab)))
	c.FailIfViolations(t)
}
