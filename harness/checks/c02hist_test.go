package checks

import (
	"fmt"
	"strings"
	"testing"

	of "github.com/contiv/libOpenflow/openflow13"
	"github.com/contiv/libOpenflow/util"
	"pgregory.net/rapid"
	"verifharness/ev"
	"verifharness/gen"
	"verifharness/spec"
)

// Builder histories (C02's quantifier "all sequences of add/prepend builder
// calls"; the same machine judged with the tree comparison serves C03): a rapid
// state machine whose rules are the library's adder methods, applied bottom-up
// (a child is complete before it is handed to its parent, Appendix B.1). After
// every step the three messages under construction are encoded and judged.

type actPair struct {
	a of.Action
	n *spec.Node
}

type histMachine struct {
	g     *gen.G
	pool  []actPair
	instr *of.InstrActions
	instN *spec.Node
	bkt   *of.Bucket
	bktN  *spec.Node
	fm    *of.FlowMod
	fmN   *spec.Node
	gm    *of.GroupMod
	gmN   *spec.Node
	po    *of.PacketOut
	poN   *spec.Node
	wrap  *of.VendorHeader // a bundle-add carrying fm: sized and encoded after every step while fm goes on changing
	wrapN *spec.Node       // without the carried message; the invariant adds fm's current tree
	wrapP []*spec.Node
	hist  []string
	prep  bool
	kinds map[string]bool
}

func newHistMachine(rt *rapid.T) *histMachine {
	g := gen.New(rt, 6000)
	m := &histMachine{g: g, kinds: map[string]bool{}}
	// empty shells of the three messages, fixed fields drawn once
	fm, fn := g.MessageOf("flow_mod")
	f := fm.(*of.FlowMod)
	if f.Command == of.FC_DELETE || f.Command == of.FC_DELETE_STRICT {
		f.Command = of.FC_ADD
		fn.Set("command", 0)
	}
	f.Instructions = nil
	f.Match = *of.NewMatch()
	fn.Kids = []*spec.Node{spec.N("match")}
	m.fm, m.fmN = f, fn
	ba := &of.BundleAdd{BundleID: g.U32("wrap_bundle_id"), Flags: g.U16("wrap_flags"), Message: f}
	if g.Chance("wrap_props", 1, 3) {
		p := of.NewBundlePropertyExperimenter()
		p.ExperimenterID, p.ExperimenterType, p.Length = g.U32("wrap_prop_exp"), g.U32("wrap_prop_type"), 12
		ba.Properties = append(ba.Properties, *p)
		m.wrapP = append(m.wrapP, spec.N("bundle_prop.experimenter", spec.U("experimenter", uint64(p.ExperimenterID)), spec.U("exp_type", uint64(p.ExperimenterType)), spec.B("data", nil)))
	}
	m.wrap = of.NewBundleAdd(ba)
	m.wrap.Header.Xid = 9
	m.wrapN = spec.N("msg.onf.bundle_add", spec.U("xid", 9), spec.U("bundle_id", uint64(ba.BundleID)), spec.U("flags", uint64(ba.Flags)))
	gmm, gn := g.MessageOf("group_mod")
	gm := gmm.(*of.GroupMod)
	if gm.Command == of.OFPGC_DELETE {
		gm.Command = of.OFPGC_ADD
		gn.Set("command", 0)
	}
	gm.Buckets = nil
	gn.Kids = nil
	m.gm, m.gmN = gm, gn
	po := of.NewPacketOut()
	po.Header.Xid = 7
	po.BufferId, po.InPort = 0xffffffff, 3
	po.SetData([]byte{1, 2, 3, 4, 5})
	m.po = po
	m.poN = spec.N("msg.packet_out", spec.U("xid", 7), spec.U("buffer_id", 0xffffffff), spec.U("in_port", 3)).With(spec.B("data", []byte{1, 2, 3, 4, 5}))
	return m
}

func (m *histMachine) take(rt *rapid.T) (actPair, bool) {
	if len(m.pool) == 0 {
		return actPair{}, false
	}
	i := rapid.IntRange(0, len(m.pool)-1).Draw(rt, "which_action")
	p := m.pool[i]
	m.pool = append(m.pool[:i], m.pool[i+1:]...)
	return p, true
}

func (m *histMachine) rules(c *ev.Collector, prop string, judge func(rt *rapid.T, kind string, msg util.Message, tree *spec.Node, hist []string)) map[string]func(*rapid.T) {
	return map[string]func(*rapid.T){
		"newAction": func(rt *rapid.T) {
			a, n, name := m.g.Action()
			m.pool = append(m.pool, actPair{a, n})
			m.hist = append(m.hist, "new "+name)
			m.kinds[n.Kind] = true
		},
		"instrAddAction": func(rt *rapid.T) {
			p, ok := m.take(rt)
			if !ok {
				rt.Skip("no completed action")
			}
			if m.instr == nil {
				if rapid.Bool().Draw(rt, "write") {
					m.instr, m.instN = of.NewInstrWriteActions(), spec.N("instr.write_actions")
				} else {
					m.instr, m.instN = of.NewInstrApplyActions(), spec.N("instr.apply_actions")
				}
			}
			if rapid.Bool().Draw(rt, "prepend") {
				m.instr.AddAction(p.a, true)
				m.instN.Kids = append([]*spec.Node{p.n}, m.instN.Kids...)
				m.prep = true
				m.hist = append(m.hist, "instr.AddAction(prepend)")
			} else {
				m.instr.AddAction(p.a, false)
				m.instN.Add(p.n)
				m.hist = append(m.hist, "instr.AddAction(append)")
			}
		},
		"flowAddInstruction": func(rt *rapid.T) {
			switch rapid.IntRange(0, 2).Draw(rt, "which_instr") {
			case 0:
				if m.instr == nil {
					rt.Skip("no instruction under construction")
				}
				m.fm.AddInstruction(m.instr)
				m.fmN.Add(m.instN)
				m.instr, m.instN = nil, nil
				m.hist = append(m.hist, "flow.AddInstruction(actions)")
			case 1:
				t := m.g.U8("goto")
				m.fm.AddInstruction(of.NewInstrGotoTable(t))
				m.fmN.Add(spec.N("instr.goto_table", spec.U("table_id", uint64(t))))
				m.hist = append(m.hist, "flow.AddInstruction(goto)")
			default:
				md, mk := m.g.U64("metadata"), m.g.U64("mask")
				m.fm.AddInstruction(of.NewInstrWriteMetadata(md, mk))
				m.fmN.Add(spec.N("instr.write_metadata", spec.U("metadata", md), spec.U("metadata_mask", mk)))
				m.hist = append(m.hist, "flow.AddInstruction(write_metadata)")
			}
		},
		"matchAddField": func(rt *rapid.T) {
			f, n, name := m.g.Field()
			m.fm.Match.AddField(*f)
			m.fmN.Kids[0].Add(n)
			m.hist = append(m.hist, "match.AddField("+name+")")
			m.kinds["oxm"] = true
		},
		"bucketAddAction": func(rt *rapid.T) {
			p, ok := m.take(rt)
			if !ok {
				rt.Skip("no completed action")
			}
			if m.bkt == nil {
				m.bkt = of.NewBucket()
				m.bkt.Weight, m.bkt.WatchPort, m.bkt.WatchGroup = m.g.U16("weight"), m.g.U32("watch_port"), m.g.U32("watch_group")
				m.bktN = spec.N("bucket", spec.U("weight", uint64(m.bkt.Weight)), spec.U("watch_port", uint64(m.bkt.WatchPort)), spec.U("watch_group", uint64(m.bkt.WatchGroup)))
			}
			m.bkt.AddAction(p.a)
			m.bktN.Add(p.n)
			m.hist = append(m.hist, "bucket.AddAction")
		},
		"groupAddBucket": func(rt *rapid.T) {
			if m.bkt == nil {
				rt.Skip("no bucket under construction")
			}
			m.gm.AddBucket(*m.bkt)
			m.gmN.Add(m.bktN)
			m.bkt, m.bktN = nil, nil
			m.hist = append(m.hist, "group.AddBucket")
		},
		"packetOutAddAction": func(rt *rapid.T) {
			p, ok := m.take(rt)
			if !ok {
				rt.Skip("no completed action")
			}
			m.po.AddAction(p.a)
			// actions sit in front of the data field of the tree
			m.poN.Add(p.n)
			m.hist = append(m.hist, "packet_out.AddAction")
		},
		// The command of a message under construction is a plain field: a caller that removes a flow and installs
		// it again changes it on the same object (delete, then add). A delete denotes no instructions / buckets;
		// what was added stays with the object and is sent again once the command is not a delete.
		"flowSetCommand": func(rt *rapid.T) {
			cmd := []uint8{of.FC_ADD, of.FC_MODIFY, of.FC_MODIFY_STRICT, of.FC_DELETE, of.FC_DELETE_STRICT}[rapid.IntRange(0, 4).Draw(rt, "flow_command")]
			m.fm.Command = cmd
			m.fmN.Set("command", uint64(cmd))
			m.hist = append(m.hist, fmt.Sprintf("flow.Command=%d", cmd))
		},
		"groupSetCommand": func(rt *rapid.T) {
			cmd := uint16(rapid.IntRange(0, 2).Draw(rt, "group_command"))
			m.gm.Command = cmd
			m.gmN.Set("command", uint64(cmd))
			m.hist = append(m.hist, fmt.Sprintf("group.Command=%d", cmd))
		},
		// A size query on its own (a caller logging or batching by size), on any of the messages or the wrapper.
		"sizeQuery": func(rt *rapid.T) {
			which := rapid.IntRange(0, 3).Draw(rt, "size_of")
			v := []util.Message{m.fm, m.gm, m.po, m.wrap}[which]
			if pf, pm := safeCall(func() { v.Len() }); pf != "" {
				c.Report(rt, prop+"|size-query-panic|"+pf, pm, map[string]any{"history": m.hist})
			}
			m.hist = append(m.hist, fmt.Sprintf("Len(%d)", which))
		},
		"": func(rt *rapid.T) {
			fmN, gmN := m.fmN, m.gmN
			if m.fm.Command == of.FC_DELETE || m.fm.Command == of.FC_DELETE_STRICT {
				fmN = m.fmN.Clone()
				kids := fmN.Kids[:0]
				for _, k := range fmN.Kids {
					if !strings.HasPrefix(k.Kind, "instr.") {
						kids = append(kids, k)
					}
				}
				fmN.Kids = kids
			}
			if m.gm.Command == of.OFPGC_DELETE {
				gmN = m.gmN.Clone()
				gmN.Kids = nil
			}
			judge(rt, "flow_mod", m.fm, fmN, m.hist)
			judge(rt, "group_mod", m.gm, gmN, m.hist)
			judge(rt, "packet_out", m.po, m.poN, m.hist)
			w := m.wrapN.Clone()
			w.Add(fmN)
			for _, p := range m.wrapP {
				w.Add(p)
			}
			judge(rt, "bundle_add(flow_mod)", m.wrap, w, m.hist)
		},
	}
}

func runHistories(t *testing.T, prop string, tree bool) {
	c := ev.For(prop)
	defer c.Done()
	checkRapid(t, c, func(rt *rapid.T) {
		m := newHistMachine(rt)
		steps := 0
		judge := func(rt *rapid.T, kind string, msg util.Message, want *spec.Node, hist []string) {
			steps++
			b, frame, pmsg := safeMarshal(msg)
			rep := map[string]any{"kind": kind, "history": hist, "tree": want.String()}
			if frame != "" {
				c.Report(rt, prop+"|"+kind+"|encode-panic|"+frame, fmt.Sprintf("%s after history %v", pmsg, hist), rep)
				return
			}
			got, _, err := spec.Decode(b)
			if err != nil {
				e := err.(*spec.Err)
				if prop == "C02" {
					c.Report(rt, "C02|"+tail2(e.Path)+"|"+e.Sym, fmt.Sprintf("%s :: after history %v :: %s", e.Detail, hist, hx(b)), rep)
				} else {
					c.Excluded("bytes do not walk (C02)")
				}
				return
			}
			if tree {
				if pc, detail := spec.Diff(want, got); pc != "" {
					c.Report(rt, "C03|"+tail2(pc)+"|value-mismatch", fmt.Sprintf("%s :: after history %v :: %s", detail, hist, hx(b)), rep)
				}
			}
		}
		rt.Repeat(m.rules(c, prop, judge))
		c.Eval()
		c.LabelN("history_steps_judged", int64(steps))
		if m.prep {
			c.Label("history_with_prepend")
		}
		if len(m.kinds) >= 2 && len(m.hist) >= 4 {
			c.NonTrivial(ev.HashStr(m.hist...))
		}
		if c.WantSample() {
			c.Sample(map[string]any{"history": m.hist})
		}
	})
}

func TestC02Histories(t *testing.T) { runHistories(t, "C02", false) }
func TestC03Histories(t *testing.T) { runHistories(t, "C03", true) }
