package checks

import (
	"fmt"
	"testing"

	of "github.com/contiv/libOpenflow/openflow13"
	"verifharness/ev"
)

// Value constants. C03's wire checks put numbers into fields; a caller puts
// names (`fm.Flags = of.FF_RESET_COUNTS`, `of.NewActionOutput(of.P_CONTROLLER)`,
// `ct.Flags |= of.NX_CT_F_COMMIT`), and reads names out of what a switch sent
// (`if ps.Reason == of.PR_DELETE`). For those the number behind the exported
// name is what ends up in, or is compared with, the field. Each name is
// compared with the number OpenFlow 1.3.5 (section 7 and annex A: ofp_port_no,
// ofp_port_config, ofp_port_features, ofp_flow_mod_command, ofp_flow_mod_flags,
// ofp_group, ofp_group_mod_command, ofp_group_type, ofp_table,
// ofp_controller_max_len, ofp_config_flags, ofp_multipart_request_flags,
// ofp_capabilities, ofp_port_state, ofp_port_reason, ofp_error_type and the
// error codes), ONF EXT-230 (bundle control types and flags) or Open vSwitch's
// nicira-ext.h (conntrack, NAT, learn flags, ct_state bits, TLV table commands)
// assigns to it. Only names whose number those documents state are listed.

type constRow struct {
	name      string
	got, want uint64
}

func checkConstTable(t *testing.T, c *ev.Collector, prop string, tab []constRow) {
	seen := map[string]bool{}
	for _, k := range tab {
		if seen[k.name] {
			t.Fatalf("duplicate row %s", k.name)
		}
		seen[k.name] = true
		c.Eval()
		c.NonTrivial(ev.HashStr("const", k.name))
		if k.got != k.want {
			c.Report(t, prop+"|constant|"+k.name, fmt.Sprintf("openflow13.%s = %#x, the specification assigns %#x", k.name, k.got, k.want), map[string]any{"name": k.name})
		}
	}
	c.LabelN("constants_compared", int64(len(tab)))
	c.Sample(map[string]any{"constants": len(tab), "first": tab[0].name, "last": tab[len(tab)-1].name})
}

// TestC03Constants: what a controller writes into messages.
func TestC03Constants(t *testing.T) {
	c := ev.For("C03")
	defer c.Done()
	c.Rule("TestC03Constants: every exported value constant a controller writes into a message (reserved ports / groups / tables, flow-mod commands and flags, group commands and types, config flags, port config and feature bits, " +
		"multipart request flag, bundle control types and flags, conntrack / NAT / learn flags, ct_state bit numbers, TLV table commands) against the number the specifications assign; exhaustive over the table.")
	tab := []constRow{
		{"P_MAX", uint64(of.P_MAX), 0xffffff00}, {"P_IN_PORT", uint64(of.P_IN_PORT), 0xfffffff8}, {"P_TABLE", uint64(of.P_TABLE), 0xfffffff9}, {"P_NORMAL", uint64(of.P_NORMAL), 0xfffffffa}, {"P_FLOOD", uint64(of.P_FLOOD), 0xfffffffb},
		{"P_ALL", uint64(of.P_ALL), 0xfffffffc}, {"P_CONTROLLER", uint64(of.P_CONTROLLER), 0xfffffffd}, {"P_LOCAL", uint64(of.P_LOCAL), 0xfffffffe}, {"P_ANY", uint64(of.P_ANY), 0xffffffff},
		{"OFPG_MAX", uint64(uint32(of.OFPG_MAX)), 0xffffff00}, {"OFPG_ALL", uint64(uint32(of.OFPG_ALL)), 0xfffffffc}, {"OFPG_ANY", uint64(uint32(of.OFPG_ANY)), 0xffffffff},
		{"OFPTT_MAX", uint64(of.OFPTT_MAX), 0xfe}, {"OFPTT_ALL", uint64(of.OFPTT_ALL), 0xff},
		{"OFPCML_MAX", uint64(of.OFPCML_MAX), 0xffe5}, {"OFPCML_NO_BUFFER", uint64(of.OFPCML_NO_BUFFER), 0xffff},
		{"FC_ADD", uint64(of.FC_ADD), 0}, {"FC_MODIFY", uint64(of.FC_MODIFY), 1}, {"FC_MODIFY_STRICT", uint64(of.FC_MODIFY_STRICT), 2}, {"FC_DELETE", uint64(of.FC_DELETE), 3}, {"FC_DELETE_STRICT", uint64(of.FC_DELETE_STRICT), 4},
		{"FF_SEND_FLOW_REM", uint64(of.FF_SEND_FLOW_REM), 1 << 0}, {"FF_CHECK_OVERLAP", uint64(of.FF_CHECK_OVERLAP), 1 << 1}, {"FF_RESET_COUNTS", uint64(of.FF_RESET_COUNTS), 1 << 2},
		{"FF_NO_PKT_COUNTS", uint64(of.FF_NO_PKT_COUNTS), 1 << 3}, {"FF_NO_BYT_COUNTS", uint64(of.FF_NO_BYT_COUNTS), 1 << 4},
		{"OFPGC_ADD", uint64(of.OFPGC_ADD), 0}, {"OFPGC_MODIFY", uint64(of.OFPGC_MODIFY), 1}, {"OFPGC_DELETE", uint64(of.OFPGC_DELETE), 2},
		{"OFPGT_ALL", uint64(of.OFPGT_ALL), 0}, {"OFPGT_SELECT", uint64(of.OFPGT_SELECT), 1}, {"OFPGT_INDIRECT", uint64(of.OFPGT_INDIRECT), 2}, {"OFPGT_FF", uint64(of.OFPGT_FF), 3},
		{"C_FRAG_NORMAL", uint64(of.C_FRAG_NORMAL), 0}, {"C_FRAG_DROP", uint64(of.C_FRAG_DROP), 1}, {"C_FRAG_REASM", uint64(of.C_FRAG_REASM), 2}, {"C_FRAG_MASK", uint64(of.C_FRAG_MASK), 3},
		{"PC_PORT_DOWN", uint64(of.PC_PORT_DOWN), 1 << 0}, {"PC_NO_RECV", uint64(of.PC_NO_RECV), 1 << 2}, {"PC_NO_FWD", uint64(of.PC_NO_FWD), 1 << 5}, {"PC_NO_PACKET_IN", uint64(of.PC_NO_PACKET_IN), 1 << 6},
		{"PF_10MB_HD", uint64(of.PF_10MB_HD), 1 << 0}, {"PF_10MB_FD", uint64(of.PF_10MB_FD), 1 << 1}, {"PF_100MB_HD", uint64(of.PF_100MB_HD), 1 << 2}, {"PF_100MB_FD", uint64(of.PF_100MB_FD), 1 << 3},
		{"PF_1GB_HD", uint64(of.PF_1GB_HD), 1 << 4}, {"PF_1GB_FD", uint64(of.PF_1GB_FD), 1 << 5}, {"PF_10GB_FD", uint64(of.PF_10GB_FD), 1 << 6}, {"PF_40GB_FD", uint64(of.PF_40GB_FD), 1 << 7},
		{"PF_100GB_FD", uint64(of.PF_100GB_FD), 1 << 8}, {"PF_1TB_FD", uint64(of.PF_1TB_FD), 1 << 9}, {"PF_OTHER", uint64(of.PF_OTHER), 1 << 10}, {"PF_COPPER", uint64(of.PF_COPPER), 1 << 11},
		{"PF_FIBER", uint64(of.PF_FIBER), 1 << 12}, {"PF_AUTONEG", uint64(of.PF_AUTONEG), 1 << 13}, {"PF_PAUSE", uint64(of.PF_PAUSE), 1 << 14}, {"PF_PAUSE_ASYM", uint64(of.PF_PAUSE_ASYM), 1 << 15},
		{"OFPMPF_REQ_MORE", uint64(of.OFPMPF_REQ_MORE), 1},
		{"MatchType_Standard", uint64(of.MatchType_Standard), 0}, {"MatchType_OXM", uint64(of.MatchType_OXM), 1}, {"VERSION", uint64(of.VERSION), 4},
		{"ONF_EXPERIMENTER_ID", uint64(uint32(of.ONF_EXPERIMENTER_ID)), 0x4f4e4600}, {"NxExperimenterID", uint64(of.NxExperimenterID), 0x2320},
		{"Type_BundleCtrl", uint64(of.Type_BundleCtrl), 2300}, {"Type_BundleAdd", uint64(of.Type_BundleAdd), 2301}, {"OFPBPT_EXPERIMENTER", uint64(of.OFPBPT_EXPERIMENTER), 0xffff},
		{"OFPBCT_OPEN_REQUEST", uint64(of.OFPBCT_OPEN_REQUEST), 0}, {"OFPBCT_OPEN_REPLY", uint64(of.OFPBCT_OPEN_REPLY), 1}, {"OFPBCT_CLOSE_REQUEST", uint64(of.OFPBCT_CLOSE_REQUEST), 2}, {"OFPBCT_CLOSE_REPLY", uint64(of.OFPBCT_CLOSE_REPLY), 3},
		{"OFPBCT_COMMIT_REQUEST", uint64(of.OFPBCT_COMMIT_REQUEST), 4}, {"OFPBCT_COMMIT_REPLY", uint64(of.OFPBCT_COMMIT_REPLY), 5}, {"OFPBCT_DISCARD_REQUEST", uint64(of.OFPBCT_DISCARD_REQUEST), 6}, {"OFPBCT_DISCARD_REPLY", uint64(of.OFPBCT_DISCARD_REPLY), 7},
		{"OFPBCT_ATOMIC", uint64(of.OFPBCT_ATOMIC), 1 << 0}, {"OFPBCT_ORDERED", uint64(of.OFPBCT_ORDERED), 1 << 1},
		{"NX_CT_F_COMMIT", uint64(of.NX_CT_F_COMMIT), 1 << 0}, {"NX_CT_F_FORCE", uint64(of.NX_CT_F_FORCE), 1 << 1}, {"NX_CT_RECIRC_NONE", uint64(of.NX_CT_RECIRC_NONE), 0xff},
		{"NX_NAT_F_SRC", uint64(of.NX_NAT_F_SRC), 1 << 0}, {"NX_NAT_F_DST", uint64(of.NX_NAT_F_DST), 1 << 1}, {"NX_NAT_F_PERSISTENT", uint64(of.NX_NAT_F_PERSISTENT), 1 << 2},
		{"NX_NAT_F_PROTO_HASH", uint64(of.NX_NAT_F_PROTO_HASH), 1 << 3}, {"NX_NAT_F_PROTO_RANDOM", uint64(of.NX_NAT_F_PROTO_RANDOM), 1 << 4}, {"NX_NAT_F_MASK", uint64(of.NX_NAT_F_MASK), 0x1f},
		{"NX_NAT_RANGE_IPV4_MIN", uint64(of.NX_NAT_RANGE_IPV4_MIN), 1 << 0}, {"NX_NAT_RANGE_IPV4_MAX", uint64(of.NX_NAT_RANGE_IPV4_MAX), 1 << 1}, {"NX_NAT_RANGE_IPV6_MIN", uint64(of.NX_NAT_RANGE_IPV6_MIN), 1 << 2},
		{"NX_NAT_RANGE_IPV6_MAX", uint64(of.NX_NAT_RANGE_IPV6_MAX), 1 << 3}, {"NX_NAT_RANGE_PROTO_MIN", uint64(of.NX_NAT_RANGE_PROTO_MIN), 1 << 4}, {"NX_NAT_RANGE_PROTO_MAX", uint64(of.NX_NAT_RANGE_PROTO_MAX), 1 << 5},
		{"NX_LEARN_F_SEND_FLOW_REM", uint64(of.NX_LEARN_F_SEND_FLOW_REM), 1 << 0}, {"NX_LEARN_F_DELETE_LEARNED", uint64(of.NX_LEARN_F_DELETE_LEARNED), 1 << 1}, {"NX_LEARN_F_WRITE_RESULT", uint64(of.NX_LEARN_F_WRITE_RESULT), 1 << 2},
		{"NX_CT_STATE_NEW_OFS", uint64(of.NX_CT_STATE_NEW_OFS), 0}, {"NX_CT_STATE_EST_OFS", uint64(of.NX_CT_STATE_EST_OFS), 1}, {"NX_CT_STATE_REL_OFS", uint64(of.NX_CT_STATE_REL_OFS), 2}, {"NX_CT_STATE_RPL_OFS", uint64(of.NX_CT_STATE_RPL_OFS), 3},
		{"NX_CT_STATE_INV_OFS", uint64(of.NX_CT_STATE_INV_OFS), 4}, {"NX_CT_STATE_TRK_OFS", uint64(of.NX_CT_STATE_TRK_OFS), 5}, {"NX_CT_STATE_SNAT_OFS", uint64(of.NX_CT_STATE_SNAT_OFS), 6}, {"NX_CT_STATE_DNAT_OFS", uint64(of.NX_CT_STATE_DNAT_OFS), 7},
		{"NXTTMC_ADD", uint64(of.NXTTMC_ADD), 0}, {"NXTTMC_DELETE", uint64(of.NXTTMC_DELETE), 1}, {"NXTTMC_CLEAR", uint64(of.NXTTMC_CLEAR), 2},
	}
	checkConstTable(t, c, "C03", tab)
}

// TestC04Constants: what a controller compares a switch's messages with.
func TestC04Constants(t *testing.T) {
	c := ev.For("C04")
	defer c.Done()
	c.Rule("TestC04Constants: every exported value constant a controller compares parsed switch messages with (capabilities, port state, port-status / packet-in / flow-removed reasons, multipart reply flag, error types and the codes of each type) against the number OpenFlow 1.3.5 assigns; exhaustive over the table.")
	tab := []constRow{
		{"C_FLOW_STATS", uint64(of.C_FLOW_STATS), 1 << 0}, {"C_TABLE_STATS", uint64(of.C_TABLE_STATS), 1 << 1}, {"C_PORT_STATS", uint64(of.C_PORT_STATS), 1 << 2}, {"C_GROUP_STATS", uint64(of.C_GROUP_STATS), 1 << 3},
		{"C_IP_REASM", uint64(of.C_IP_REASM), 1 << 5}, {"C_QUEUE_STATS", uint64(of.C_QUEUE_STATS), 1 << 6}, {"C_PORT_BLOCKED", uint64(of.C_PORT_BLOCKED), 1 << 8},
		{"PS_LINK_DOWN", uint64(of.PS_LINK_DOWN), 1 << 0}, {"PS_BLOCKED", uint64(of.PS_BLOCKED), 1 << 1}, {"PS_LIVE", uint64(of.PS_LIVE), 1 << 2},
		{"PR_ADD", uint64(of.PR_ADD), 0}, {"PR_DELETE", uint64(of.PR_DELETE), 1}, {"PR_MODIFY", uint64(of.PR_MODIFY), 2},
		{"R_NO_MATCH", uint64(of.R_NO_MATCH), 0}, {"RR_IDLE_TIMEOUT", uint64(of.RR_IDLE_TIMEOUT), 0}, {"OFPMPF_REPLY_MORE", uint64(of.OFPMPF_REPLY_MORE), 1},
		{"ET_HELLO_FAILED", uint64(of.ET_HELLO_FAILED), 0}, {"ET_BAD_REQUEST", uint64(of.ET_BAD_REQUEST), 1}, {"ET_BAD_ACTION", uint64(of.ET_BAD_ACTION), 2}, {"ET_BAD_INSTRUCTION", uint64(of.ET_BAD_INSTRUCTION), 3},
		{"PET_BAD_MATCH", uint64(of.PET_BAD_MATCH), 4}, {"ET_FLOW_MOD_FAILED", uint64(of.ET_FLOW_MOD_FAILED), 5}, {"ET_GROUP_MOD_FAILED", uint64(of.ET_GROUP_MOD_FAILED), 6}, {"ET_PORT_MOD_FAILED", uint64(of.ET_PORT_MOD_FAILED), 7},
		{"ET_TABLE_MOD_FAILED", uint64(of.ET_TABLE_MOD_FAILED), 8}, {"ET_QUEUE_OP_FAILED", uint64(of.ET_QUEUE_OP_FAILED), 9}, {"ET_ROLE_REQUEST_FAILED", uint64(of.ET_ROLE_REQUEST_FAILED), 11}, {"ET_METER_MOD_FAILED", uint64(of.ET_METER_MOD_FAILED), 12},
		{"ET_TABLE_FEATURES_FAILED", uint64(of.ET_TABLE_FEATURES_FAILED), 13}, {"ET_EXPERIMENTER", uint64(of.ET_EXPERIMENTER), 0xffff},
		{"HFC_INCOMPATIBLE", uint64(of.HFC_INCOMPATIBLE), 0}, {"HFC_EPERM", uint64(of.HFC_EPERM), 1},
		{"BRC_BAD_VERSION", uint64(of.BRC_BAD_VERSION), 0}, {"BRC_BAD_TYPE", uint64(of.BRC_BAD_TYPE), 1}, {"BRC_BAD_MULTIPART", uint64(of.BRC_BAD_MULTIPART), 2}, {"BRC_BAD_EXPERIMENTER", uint64(of.BRC_BAD_EXPERIMENTER), 3},
		{"BRC_BAD_EXP_TYPE", uint64(of.BRC_BAD_EXP_TYPE), 4}, {"BRC_EPERM", uint64(of.BRC_EPERM), 5}, {"BRC_BAD_LEN", uint64(of.BRC_BAD_LEN), 6}, {"BRC_BUFFER_EMPTY", uint64(of.BRC_BUFFER_EMPTY), 7}, {"BRC_BUFFER_UNKNOWN", uint64(of.BRC_BUFFER_UNKNOWN), 8},
		{"BRC_BAD_TABLE_ID", uint64(of.BRC_BAD_TABLE_ID), 9}, {"BRC_IS_SLAVE", uint64(of.BRC_IS_SLAVE), 10}, {"BRC_BAD_PORT", uint64(of.BRC_BAD_PORT), 11}, {"BRC_BAD_PACKET", uint64(of.BRC_BAD_PACKET), 12},
		{"BRC_MULTIPART_BUFFER_OVERFLOW", uint64(of.BRC_MULTIPART_BUFFER_OVERFLOW), 13},
		{"BAC_BAD_TYPE", uint64(of.BAC_BAD_TYPE), 0}, {"BAC_BAD_LEN", uint64(of.BAC_BAD_LEN), 1}, {"BAC_BAD_EXPERIMENTER", uint64(of.BAC_BAD_EXPERIMENTER), 2}, {"BAC_BAD_EXP_TYPE", uint64(of.BAC_BAD_EXP_TYPE), 3},
		{"BAC_BAD_OUT_PORT", uint64(of.BAC_BAD_OUT_PORT), 4}, {"BAC_BAD_ARGUMENT", uint64(of.BAC_BAD_ARGUMENT), 5}, {"BAC_EPERM", uint64(of.BAC_EPERM), 6}, {"BAC_TOO_MANY", uint64(of.BAC_TOO_MANY), 7}, {"BAC_BAD_QUEUE", uint64(of.BAC_BAD_QUEUE), 8},
		{"BAC_BAD_OUT_GROUP", uint64(of.BAC_BAD_OUT_GROUP), 9}, {"BAC_MATCH_INCONSISTENT", uint64(of.BAC_MATCH_INCONSISTENT), 10}, {"BAC_UNSUPPORTED_ORDER", uint64(of.BAC_UNSUPPORTED_ORDER), 11}, {"BAC_BAD_TAG", uint64(of.BAC_BAD_TAG), 12},
		{"BAC_BAD_SET_TYPE", uint64(of.BAC_BAD_SET_TYPE), 13}, {"BAC_BAD_SET_LEN", uint64(of.BAC_BAD_SET_LEN), 14}, {"BAC_BAD_SET_ARGUMENT", uint64(of.BAC_BAD_SET_ARGUMENT), 15},
		{"BIC_UNKNOWN_INST", uint64(of.BIC_UNKNOWN_INST), 0}, {"BIC_UNSUP_INST", uint64(of.BIC_UNSUP_INST), 1}, {"BIC_BAD_TABLE_ID", uint64(of.BIC_BAD_TABLE_ID), 2}, {"BIC_UNSUP_METADATA", uint64(of.BIC_UNSUP_METADATA), 3},
		{"BIC_UNSUP_METADATA_MASK", uint64(of.BIC_UNSUP_METADATA_MASK), 4}, {"BIC_BAD_EXPERIMENTER", uint64(of.BIC_BAD_EXPERIMENTER), 5}, {"BIC_BAD_EXP_TYPE", uint64(of.BIC_BAD_EXP_TYPE), 6}, {"BIC_BAD_LEN", uint64(of.BIC_BAD_LEN), 7}, {"BIC_EPERM", uint64(of.BIC_EPERM), 8},
		{"BMC_BAD_TYPE", uint64(of.BMC_BAD_TYPE), 0}, {"BMC_BAD_LEN", uint64(of.BMC_BAD_LEN), 1}, {"BMC_BAD_TAG", uint64(of.BMC_BAD_TAG), 2}, {"BMC_BAD_DL_ADDR_MASK", uint64(of.BMC_BAD_DL_ADDR_MASK), 3}, {"BMC_BAD_NW_ADDR_MASK", uint64(of.BMC_BAD_NW_ADDR_MASK), 4},
		{"BMC_BAD_WILDCARDS", uint64(of.BMC_BAD_WILDCARDS), 5}, {"BMC_BAD_FIELD", uint64(of.BMC_BAD_FIELD), 6}, {"BMC_BAD_VALUE", uint64(of.BMC_BAD_VALUE), 7}, {"BMC_BAD_MASK", uint64(of.BMC_BAD_MASK), 8}, {"BMC_BAD_PREREQ", uint64(of.BMC_BAD_PREREQ), 9},
		{"BMC_DUP_FIELD", uint64(of.BMC_DUP_FIELD), 10}, {"BMC_EPERM", uint64(of.BMC_EPERM), 11},
		{"FMFC_UNKNOWN", uint64(of.FMFC_UNKNOWN), 0}, {"FMFC_TABLE_FULL", uint64(of.FMFC_TABLE_FULL), 1}, {"FMFC_BAD_TABLE_ID", uint64(of.FMFC_BAD_TABLE_ID), 2}, {"FMFC_OVERLAP", uint64(of.FMFC_OVERLAP), 3}, {"FMFC_EPERM", uint64(of.FMFC_EPERM), 4},
		{"FMFC_BAD_TIMEOUT", uint64(of.FMFC_BAD_TIMEOUT), 5}, {"FMFC_BAD_COMMAND", uint64(of.FMFC_BAD_COMMAND), 6}, {"FMFC_BAD_FLAGS", uint64(of.FMFC_BAD_FLAGS), 7},
		{"GMFC_GROUP_EXISTS", uint64(of.GMFC_GROUP_EXISTS), 0}, {"GMFC_INVALID_GROUP", uint64(of.GMFC_INVALID_GROUP), 1}, {"GMFC_WEIGHT_UNSUPPORTED", uint64(of.GMFC_WEIGHT_UNSUPPORTED), 2}, {"GMFC_OUT_OF_GROUPS", uint64(of.GMFC_OUT_OF_GROUPS), 3},
		{"GMFC_OUT_OF_BUCKETS", uint64(of.GMFC_OUT_OF_BUCKETS), 4}, {"GMFC_CHAINING_UNSUPPORTED", uint64(of.GMFC_CHAINING_UNSUPPORTED), 5}, {"GMFC_WATCH_UNSUPPORTED", uint64(of.GMFC_WATCH_UNSUPPORTED), 6}, {"GMFC_LOOP", uint64(of.GMFC_LOOP), 7},
		{"GMFC_UNKNOWN_GROUP", uint64(of.GMFC_UNKNOWN_GROUP), 8}, {"GMFC_CHAINED_GROUP", uint64(of.GMFC_CHAINED_GROUP), 9}, {"GMFC_BAD_TYPE", uint64(of.GMFC_BAD_TYPE), 10}, {"GMFC_BAD_COMMAND", uint64(of.GMFC_BAD_COMMAND), 11},
		{"GMFC_BAD_BUCKET", uint64(of.GMFC_BAD_BUCKET), 12}, {"GMFC_BAD_WATCH", uint64(of.GMFC_BAD_WATCH), 13}, {"GMFC_EPERM", uint64(of.GMFC_EPERM), 14},
		{"PMFC_BAD_PORT", uint64(of.PMFC_BAD_PORT), 0}, {"PMFC_BAD_HW_ADDR", uint64(of.PMFC_BAD_HW_ADDR), 1}, {"PMFC_BAD_CONFIG", uint64(of.PMFC_BAD_CONFIG), 2}, {"PMFC_BAD_ADVERTISE", uint64(of.PMFC_BAD_ADVERTISE), 3}, {"PMFC_EPERM", uint64(of.PMFC_EPERM), 4},
		{"TMFC_BAD_TABLE", uint64(of.TMFC_BAD_TABLE), 0}, {"TMFC_BAD_CONFIG", uint64(of.TMFC_BAD_CONFIG), 1}, {"TMFC_EPERM", uint64(of.TMFC_EPERM), 2},
		{"QOFC_BAD_PORT", uint64(of.QOFC_BAD_PORT), 0}, {"QOFC_BAD_QUEUE", uint64(of.QOFC_BAD_QUEUE), 1}, {"QOFC_EPERM", uint64(of.QOFC_EPERM), 2},
	}
	checkConstTable(t, c, "C04", tab)
}
