package checks

import (
	"bytes"
	"fmt"
	"reflect"
	"strings"
	"testing"
	"time"

	of "github.com/contiv/libOpenflow/openflow13"
	"github.com/contiv/libOpenflow/protocol"
	"github.com/contiv/libOpenflow/util"
	"pgregory.net/rapid"
	"verifharness/ev"
	"verifharness/gen"
	"verifharness/obs"
	"verifharness/spec"
)

// C04 — parsed messages expose exactly what a conforming switch put on the
// wire: spec tree -> independent encoder -> openflow13.Parse -> extractor ->
// compare with the generated tree.

type parseResult struct {
	m     util.Message
	err   error
	frame string
	pmsg  string
	hung  bool
}

// parseGuarded runs Parse on its own goroutine so that a panic or a hang in
// the library cannot take the check down.
func parseGuarded(b []byte, limit time.Duration) parseResult {
	ch := make(chan parseResult, 1)
	go func() {
		var r parseResult
		defer func() {
			if p := recover(); p != nil {
				r.frame, r.pmsg = libFrame(), fmt.Sprint(p)
			}
			ch <- r
		}()
		r.m, r.err = of.Parse(b)
	}()
	select {
	case r := <-ch:
		return r
	case <-time.After(limit):
		return parseResult{hung: true}
	}
}

// ethDump is the observable dump of a decoded/constructed frame with the
// closed normalisation list of DESIGN 4.2.
func ethDump(e *protocol.Ethernet) string {
	return obs.Dump(e, obs.Opts{ExportedOnly: true, Normalise: true, EncodeHook: func(v reflect.Value) (string, bool) {
		if v.Type() == reflect.TypeOf(protocol.VLAN{}) && v.FieldByName("VID").Uint() == 0 {
			return "VLAN{untagged}", true // VID 0 is the library's representation of "no tag"
		}
		return "", false
	}})
}

func stripUnknownHello(n *spec.Node) *spec.Node {
	if n.Kind != "msg.hello" {
		return n
	}
	c := n.Clone()
	var kids []*spec.Node
	for _, k := range c.Kids {
		if k.Kind != "hello.unknown" {
			kids = append(kids, k)
		}
	}
	c.Kids = kids
	return c
}

var of10Kinds = map[string]bool{"mp_reply_table": true, "mp_reply_port": true, "mp_reply_queue": true}

func TestC04(t *testing.T) {
	c := ev.For("C04")
	defer c.Done()
	c.Rule("rapid: spec trees for every switch-originated kind the library has a receiving type for (hello incl. unknown elements that must be skipped, " +
		"error, experimenter error, echo request/reply with payload, features reply, get-config reply, packet-in with a generated Ethernet/VLAN/IPv4/IPv6(+ext chain)/ARP/UDP/ICMP frame, " +
		"flow-removed, port-status, multipart reply desc/flow/aggregate/table/port/queue with 0..40+ records, barrier reply, NX TLV-table reply, bundle-control reply), " +
		"encoded by the model's strict encoder. Oracle: openflow13.Parse returns no error and a value of the expected Go kind; a per-kind extractor rebuilds a spec tree from " +
		"its fields that must equal the generated tree; the packet-in payload is compared field-wise with the frame the generator built (dynamic payload types included). " +
		"Non-trivial: a list with >=2 elements, a payload, or a masked field; distinct by hash of the bytes.")
	c.Assume("the wire model (harness/spec) and the packet model (harness/gen/packet.go) are my transcriptions of OF1.3.5 / nicira-ext.h / RFC 791, 826, 8200, 768, 792",
		"scope: kinds for which the library defines a receiving type; multipart types outside its six, vendor subtypes without payload type and OXM fields DecodeMatchField does not map are generated in C07 only")
	regressC04(t, c)
	checkRapid(t, c, c04Prop(c))
}

func c04Prop(c *ev.Collector) func(rt *rapid.T) {
	return func(rt *rapid.T) {
		c.Eval()
		g := gen.New(rt, drawBudget(rt))
		// match fields the library cannot decode are outside "supported match-field kinds"
		for _, fg := range gen.Fields {
			if !fg.TwoWay {
				g.Avoid[fg.Name] = true
			}
		}
		g.CutPackets = 1
		sm := g.SwitchMessage()
		injectONFFields(rt, g, sm.Tree)
		addLabels(c, g.Labels)
		c.Label("kind=" + sm.Kind)
		checkParsed(c, rt, sm)
	}
}

// FuzzC04: coverage-guided driver of the same property (thorough tier only).
func FuzzC04(f *testing.F) {
	c := ev.For("C04")
	f.Fuzz(rapid.MakeFuzz(guardLib(c, c04Prop(c))))
}

// injectONFFields adds, to some matches of a switch-originated tree, the two
// ONF experimenter-class OXMs the library has a decoder for (class 0xffff,
// experimenter 0x4f4e4600: tcp_flags 42 and actset_output 43 - what an OF1.3
// switch such as OVS sends for those fields). The library has no constructor
// for them, so they exist on the wire side only, at any position of the match.
func injectONFFields(rt *rapid.T, g *gen.G, n *spec.Node) {
	for _, k := range n.Kids {
		injectONFFields(rt, g, k)
	}
	injectWireOnlyActions(rt, g, n)
	injectWireOnlyInstrs(rt, g, n)
	injectWireOnlyFields(rt, g, n)
	if n.Kind != "match" || gen.Pick(rt, "onf_fields?", 3) != 0 {
		return
	}
	for i, cnt := 0, 1+gen.Pick(rt, "onf_count", 2); i < cnt; i++ {
		var f *spec.Node
		if rapid.Bool().Draw(rt, "onf_tcp_flags") {
			f = spec.N("oxm", spec.U("class", 0xffff), spec.U("field", 42), spec.U("hasmask", 0), spec.U("experimenter", spec.ONFVendor))
			v := []byte{byte(g.U8("tf_hi")), byte(g.U8("tf_lo"))}
			if rapid.Bool().Draw(rt, "onf_masked") {
				f.Set("hasmask", 1)
				f.With(spec.B("value", v), spec.B("mask", []byte{byte(g.U8("tm_hi")), byte(g.U8("tm_lo"))}))
				g.Label("has_mask")
			} else {
				f.With(spec.B("value", v), spec.B("mask", nil))
			}
			g.Label("field=ONF_tcp_flags")
		} else {
			p := g.U32("actset_port")
			f = spec.N("oxm", spec.U("class", 0xffff), spec.U("field", 43), spec.U("hasmask", 0), spec.U("experimenter", spec.ONFVendor),
				spec.B("value", []byte{byte(p >> 24), byte(p >> 16), byte(p >> 8), byte(p)}), spec.B("mask", nil))
			g.Label("field=ONF_actset_output")
		}
		pos := gen.Pick(rt, "onf_pos", len(n.Kids)+1)
		n.Kids = append(n.Kids[:pos], append([]*spec.Node{f}, n.Kids[pos:]...)...)
		if pos < len(n.Kids)-1 {
			g.Label("onf_field_not_last")
		}
	}
}

// wireOnlyFields: match fields DecodeMatchField has a decoder for but the
// library has no (or no dedicated) constructor for - a switch reports them in
// flow-stats replies, flow-removed and packet-in like any other field. Width
// per OpenFlow 1.3 table 11 / OVS meta-flow.h; masked only where OVS allows a
// mask.
var wireOnlyFields = []struct {
	class    uint16
	field    uint8
	width    int
	maskable bool
	name     string
}{
	{0x8000, 29, 1, false, "OXM_OF_ICMPV6_TYPE"}, {0x8000, 30, 1, false, "OXM_OF_ICMPV6_CODE"},
	{0x8000, 31, 16, false, "OXM_OF_IPV6_ND_TARGET"}, {0x8000, 32, 6, false, "OXM_OF_IPV6_ND_SLL"}, {0x8000, 33, 6, false, "OXM_OF_IPV6_ND_TLL"},
	{1, 19, 16, true, "NXM_NX_IPV6_SRC"}, {1, 20, 16, true, "NXM_NX_IPV6_DST"},
	{1, 21, 1, false, "NXM_NX_ICMPV6_TYPE"}, {1, 22, 1, false, "NXM_NX_ICMPV6_CODE"},
	{1, 23, 16, true, "NXM_NX_ND_TARGET"}, {1, 24, 6, false, "NXM_NX_ND_SLL"}, {1, 25, 6, false, "NXM_NX_ND_TLL"},
	{1, 27, 4, true, "NXM_NX_IPV6_LABEL"},
	{1, 109, 16, true, "NXM_NX_TUN_IPV6_SRC"}, {1, 110, 16, true, "NXM_NX_TUN_IPV6_DST"},
	{1, 119, 1, false, "NXM_NX_CT_NW_PROTO"}, {1, 120, 4, true, "NXM_NX_CT_NW_SRC"}, {1, 121, 4, true, "NXM_NX_CT_NW_DST"},
	{1, 122, 16, true, "NXM_NX_CT_IPV6_SRC"}, {1, 123, 16, true, "NXM_NX_CT_IPV6_DST"},
	{1, 124, 2, true, "NXM_NX_CT_TP_SRC"}, {1, 125, 2, true, "NXM_NX_CT_TP_DST"},
}

func injectWireOnlyFields(rt *rapid.T, g *gen.G, n *spec.Node) {
	if n.Kind != "match" || gen.Pick(rt, "wire_fields?", 3) != 0 {
		return
	}
	for i, cnt := 0, 1+gen.Pick(rt, "wire_field_count", 3); i < cnt; i++ {
		wf := wireOnlyFields[gen.Pick(rt, "wire_field", len(wireOnlyFields))]
		v := g.Bytes("wire_field_value", wf.width)
		if wf.name == "NXM_NX_IPV6_LABEL" {
			v[0], v[1] = 0, v[1]&0x0f // 20-bit label
		}
		f := spec.N("oxm", spec.U("class", uint64(wf.class)), spec.U("field", uint64(wf.field)), spec.U("hasmask", 0))
		if wf.maskable && rapid.Bool().Draw(rt, "wire_field_masked") {
			m := g.Bytes("wire_field_mask", wf.width)
			if wf.name == "NXM_NX_IPV6_LABEL" {
				m[0], m[1] = 0, m[1]&0x0f
			}
			for k := range v {
				v[k] &= m[k] // a conforming switch sends no value bit outside the mask
			}
			f.Set("hasmask", 1)
			f.With(spec.B("value", v), spec.B("mask", m))
			g.Label("has_mask")
		} else {
			f.With(spec.B("value", v), spec.B("mask", nil))
		}
		g.Label("field=wire:" + wf.name)
		pos := gen.Pick(rt, "wire_field_pos", len(n.Kids)+1)
		n.Kids = append(n.Kids[:pos], append([]*spec.Node{f}, n.Kids[pos:]...)...)
		if pos < len(n.Kids)-1 {
			g.Label("wire_only_field_not_last")
		}
	}
}

// injectWireOnlyInstrs adds the two instructions the library decodes but has
// no constructor for (clear-actions, meter) to instruction lists: flows
// installed by other controllers or by ovs-ofctl carry them, and a flow-stats
// reply reports them.
func injectWireOnlyInstrs(rt *rapid.T, g *gen.G, n *spec.Node) {
	hasInstr := false
	for _, k := range n.Kids {
		if strings.HasPrefix(k.Kind, "instr.") {
			hasInstr = true
		}
	}
	if !(hasInstr || n.Kind == "mprep.flow") || gen.Pick(rt, "wire_instrs?", 4) != 0 {
		return
	}
	for i, cnt := 0, 1+gen.Pick(rt, "wire_instr_count", 2); i < cnt; i++ {
		var in *spec.Node
		if rapid.Bool().Draw(rt, "wire_instr_meter") {
			in = spec.N("instr.meter", spec.U("meter_id", uint64(g.U32("meter_id"))))
		} else {
			in = spec.N("instr.clear_actions")
		}
		// instructions sit behind the other children (fields, match) of their parent: insert among them
		first := len(n.Kids)
		for j, k := range n.Kids {
			if strings.HasPrefix(k.Kind, "instr.") {
				first = j
				break
			}
		}
		pos := first + gen.Pick(rt, "wire_instr_pos", len(n.Kids)-first+1)
		n.Kids = append(n.Kids[:pos], append([]*spec.Node{in}, n.Kids[pos:]...)...)
		g.Label("wire_only_instr=" + in.Kind)
	}
}

// injectWireOnlyActions adds, to some action lists of a switch-originated tree,
// the standard actions the library decodes but has no constructor for
// (copy_ttl_out/in, set_mpls_ttl, dec_mpls_ttl, set_nw_ttl, push_pbb, pop_pbb):
// a switch reports them in flow-stats replies like any other action.
func injectWireOnlyActions(rt *rapid.T, g *gen.G, n *spec.Node) {
	if g.Avoid["wire_only_actions"] {
		return
	}
	if (n.Kind != "instr.apply_actions" && n.Kind != "instr.write_actions") || gen.Pick(rt, "wire_actions?", 4) != 0 {
		return
	}
	for i, cnt := 0, 1+gen.Pick(rt, "wire_action_count", 2); i < cnt; i++ {
		var a *spec.Node
		switch gen.Pick(rt, "wire_action", 7) {
		case 0:
			a = spec.N("act.copy_ttl_out")
		case 1:
			a = spec.N("act.copy_ttl_in")
		case 2:
			a = spec.N("act.dec_mpls_ttl")
		case 3:
			a = spec.N("act.pop_pbb")
		case 4:
			a = spec.N("act.set_mpls_ttl", spec.U("ttl", uint64(g.U8("mpls_ttl"))))
		case 5:
			a = spec.N("act.set_nw_ttl", spec.U("ttl", uint64(g.U8("nw_ttl"))))
		default:
			a = spec.N("act.push_pbb", spec.U("ethertype", uint64(g.U16("pbb_ethertype"))))
		}
		pos := gen.Pick(rt, "wire_action_pos", len(n.Kids)+1)
		n.Kids = append(n.Kids[:pos], append([]*spec.Node{a}, n.Kids[pos:]...)...)
		g.Label("wire_only_action=" + a.Kind)
		if pos < len(n.Kids)-1 {
			g.Label("wire_only_action_not_last")
		}
	}
}

func checkParsed(c *ev.Collector, t ev.Fataler, sm gen.SwitchMsg) {
	b, tooBig := encodeModel(sm.Tree)
	if tooBig {
		c.Excluded("model size > 65535")
		return
	}
	nodes, _ := sm.Tree.Count()
	if nodes >= 3 || sm.Pkt != nil || len(sm.Tree.GetB("data")) > 0 {
		c.NonTrivial(ev.Hash64(b))
	}
	if c.WantSample() {
		c.Sample(map[string]any{"kind": sm.Kind, "tree": clip(sm.Tree.String(), 600), "bytes": len(b), "hex": clipHex(b, 96)})
	}
	rep := map[string]any{"kind": sm.Kind, "tree": sm.Tree.String(), "hex": hx(b)}
	noCodec := false
	sm.Tree.Walk(func(n *spec.Node) {
		switch n.Kind {
		case "act.copy_ttl_out", "act.copy_ttl_in", "act.dec_mpls_ttl", "act.pop_pbb", "act.set_mpls_ttl", "act.set_nw_ttl":
			noCodec = true
		}
	})
	fail := func(sig, detail string) {
		if sm.Cut && strings.HasSuffix(sig, "|parse-error") {
			// one signature: a packet-in whose data ends before the packet's headers do is refused as a whole
			sig = "C04|packet_in|data-cut-inside-the-packet-headers|parse-error"
			detail = fmt.Sprintf("data holds the first %d of the packet's %d bytes (%s): %s", sm.CutAt, len(sm.Pkt.Wire), sm.Pkt.Desc, detail)
		}
		if noCodec {
			// one signature: every symptom in a frame that carries one of these actions has the same root cause
			sig = "C04|std-action-decoded-as-bare-header|len4"
		}
		if of10Kinds[sm.Kind] {
			// one signature per OF1.0-layout kind: every symptom there has the same root cause
			sig = "C04|" + sm.Kind + "|of10-layout"
		}
		c.Report(t, sig, detail+" :: "+clip(sm.Tree.String(), 400)+" :: "+hx(b), rep)
	}
	r := parseGuarded(b, 20*time.Second)
	switch {
	case r.hung:
		fail("C04|"+sm.Kind+"|hang", "Parse did not return within 20s")
		return
	case r.frame != "":
		fail("C04|"+sm.Kind+"|panic|"+r.frame, "Parse panicked: "+r.pmsg)
		return
	case r.err != nil:
		fail("C04|"+sm.Kind+"|parse-error", "Parse returned an error for conformant bytes: "+r.err.Error())
		return
	case r.m == nil || (reflect.ValueOf(r.m).Kind() == reflect.Ptr && reflect.ValueOf(r.m).IsNil()):
		fail("C04|"+sm.Kind+"|nil-nil", "Parse returned neither message nor error")
		return
	}
	got, err := extractSafe(r.m)
	if err != nil {
		fail("C04|"+sm.Kind+"|kind", fmt.Sprintf("value of type %T cannot be read back: %v", r.m, err))
		return
	}
	want := stripUnknownHello(sm.Tree)
	if sm.Kind == "packet_in" {
		// the payload is judged separately
		w := want.Clone()
		w.F = w.F[:len(w.F)-1]
		want = w
	}
	if pc, detail := spec.Diff(want, got); pc != "" {
		fail("C04|"+tail2(pc)+"|value-mismatch", detail)
		return
	}
	if bad := addrValues(r.m); bad != "" {
		fail("C04|"+sm.Kind+"|address-value", bad)
		return
	}
	if sm.Kind == "packet_in" && sm.Cut {
		// what was delivered of the packet is all there is: the value must give exactly those bytes back
		p := r.m.(*of.PacketIn)
		want := sm.Pkt.Wire[:sm.CutAt]
		b, fr, msg := safeMarshal(&p.Data)
		if fr != "" || !bytes.Equal(b, want) {
			fail("C04|packet_in|cut-packet|payload-bytes", fmt.Sprintf("the first %d bytes of %s were delivered; the parsed packet encodes to %d bytes (%s %s): %s, want %s", sm.CutAt, sm.Pkt.Desc, len(b), fr, msg, hx(b), hx(want)))
		}
		return
	}
	if sm.Kind == "packet_in" {
		p := r.m.(*of.PacketIn)
		wd, gd := ethDump(sm.Pkt.Eth), ethDump(&p.Data)
		if wd != gd {
			fail("C04|packet_in.payload|"+sm.Pkt.L3+"/"+sm.Pkt.L4+"|value-mismatch", sm.Pkt.Desc+": "+obs.FirstDiff(wd, gd))
		}
	}
}

func encodeModel(n *spec.Node) (b []byte, tooBig bool) {
	defer func() {
		if r := recover(); r != nil {
			if s, ok := r.(string); ok && strings.Contains(s, "bytes") {
				b, tooBig = nil, true
				return
			}
			panic(r)
		}
	}()
	return spec.Encode(n), false
}
