package checks

import (
	"bytes"
	"fmt"
	"reflect"
	"strings"
	"testing"

	"github.com/contiv/libOpenflow/common"
	of "github.com/contiv/libOpenflow/openflow13"
	"github.com/contiv/libOpenflow/protocol"
	"github.com/contiv/libOpenflow/util"
	"pgregory.net/rapid"
	"verifharness/ev"
	"verifharness/gen"
	"verifharness/obs"
	"verifharness/spec"
)

// C05 — library round trip (DESIGN.md section 10, C05):
//
//	b = enc(v); v' = receiver.decode(b) succeeds; observable(v') == observable(v); enc(v') == b; v'.Len() == len(b)
//
// for top-level messages through the parser entry point (or, for the kinds
// Parse does not dispatch, the receiver a caller allocates), and for elements
// alone and followed by other elements (the decoder must stop at its own extent).

var (
	tMsg     = reflect.TypeOf((*util.Message)(nil)).Elem()
	tMF      = reflect.TypeOf(of.MatchField{})
	tNote    = reflect.TypeOf(of.NXActionNote{})
	tEth     = reflect.TypeOf(protocol.Ethernet{})
	tVLAN    = reflect.TypeOf(protocol.VLAN{})
	tOption  = reflect.TypeOf(protocol.Option{})
	obsNorms = "nil==empty slice; net.IP in 16-byte form; MatchField.Value/Mask compared by their encoding; NXActionNote.Note right-padded with zeros to the action's 8-byte boundary; " +
		"an Ethernet VLAN with VID 0 is 'untagged' (TPID/PCP/DEI ignored); an IPv6 Option's Data is compared zero-filled to its Length; Bucket.Length (derived, stamped on a copy at encode time) and NXActionResubmit.TableID (no wire representation) skipped; " +
		"a flow-mod/group-mod delete denotes a message without instructions/buckets"
)

// obsDump is the observable dump: exported fields with the closed
// normalisation list of DESIGN 4.2.
func obsDump(v any) string {
	return obs.Dump(v, obs.Opts{ExportedOnly: true, Normalise: true, EncodeHook: func(rv reflect.Value) (string, bool) {
		switch rv.Type() {
		case tVLAN:
			if rv.FieldByName("VID").Uint() == 0 {
				return "VLAN{untagged}", true
			}
		case tNote:
			note := rv.FieldByName("Note").Bytes()
			n := (10+len(note)+7)/8*8 - 10
			if n < 6 {
				n = 6
			}
			p := make([]byte, n)
			copy(p, note)
			return fmt.Sprintf("NXActionNote{Note:%x}", p), true
		}
		// leaf payloads behind MatchField.Value / Mask: compare by encoding (the library decodes e.g. a
		// ByteArrayField-built register into a Uint32Message)
		if rv.Kind() == reflect.Interface && !rv.IsNil() && rv.Type() == tMsg && rv.CanInterface() {
			return "", false
		}
		return "", false
	}, SkipFields: nil})
}

// fieldAware dump: MatchField handled explicitly.
func obsDumpMsg(v any) string {
	return obs.Dump(v, obs.Opts{ExportedOnly: true, Normalise: true, EncodeHook: func(rv reflect.Value) (string, bool) {
		switch rv.Type() {
		case tMF:
			f := rv.Interface().(of.MatchField)
			var vb, mb []byte
			if f.Value != nil {
				vb, _ = f.Value.MarshalBinary()
			}
			if f.Mask != nil && f.HasMask {
				mb, _ = f.Mask.MarshalBinary()
			}
			return fmt.Sprintf("MatchField{Class:%#x Field:%d HasMask:%v Length:%d Exp:%#x Value:%x Mask:%x}", f.Class, f.Field, f.HasMask, f.Length, f.ExperimenterID, vb, mb), true
		case tVLAN:
			if rv.FieldByName("VID").Uint() == 0 {
				return "VLAN{untagged}", true
			}
		case tOption:
			// an option whose Data is shorter than Length (PadN written without data) denotes zero fill
			d := make([]byte, rv.FieldByName("Length").Uint())
			copy(d, rv.FieldByName("Data").Bytes())
			return fmt.Sprintf("Option{Type:%d Length:%d Data:%x}", rv.FieldByName("Type").Uint(), len(d), d), true
		case tNote:
			note := rv.FieldByName("Note").Bytes()
			n := (10+len(note)+7)/8*8 - 10
			if n < 6 {
				n = 6
			}
			p := make([]byte, n)
			copy(p, note)
			return fmt.Sprintf("NXActionNote{Note:%x}", p), true
		}
		return "", false
	}, SkipFields: map[string]bool{
		// derived length that no constructor or adder maintains (Bucket.MarshalBinary stamps it on a copy); the
		// wire value is judged through re-encoding and Len()
		"Bucket.Length": true,
		// no wire representation: NXAST_RESUBMIT (subtype 1) carries no table; the encoder stores OFPTT_ALL
		// in the struct as a marker, the decoder leaves 0
		"NXActionResubmit.TableID": true,
	}})
}

// denoted strips what the encoding of a value does not carry by definition: a
// flow-mod / group-mod delete has no instructions / buckets on the wire (OF1.3.5;
// the library's Len() and encoder exclude them), so they are not part of what
// a decode can give back.
func denoted(m util.Message) util.Message {
	switch v := m.(type) {
	case *of.FlowMod:
		if v.Command == of.FC_DELETE || v.Command == of.FC_DELETE_STRICT {
			c := *v
			c.Instructions = nil
			return &c
		}
	case *of.GroupMod:
		if v.Command == of.OFPGC_DELETE {
			c := *v
			c.Buckets = nil
			return &c
		}
	case *of.VendorHeader:
		if ba, ok := v.VendorData.(*of.BundleAdd); ok {
			if inner := denoted(ba.Message); inner != ba.Message {
				c, b := *v, *ba
				b.Message = inner
				c.VendorData = &b
				return &c
			}
		}
	}
	return m
}

// decodeTop decodes a top-level frame the way the library / its callers do.
func decodeTop(lib util.Message, b []byte) (m util.Message, how string, err error, frame, pmsg string) {
	frame, pmsg = safeCall(func() {
		switch lib.(type) {
		case *of.PacketOut:
			m, how = of.NewPacketOut(), "NewPacketOut().UnmarshalBinary"
			err = m.UnmarshalBinary(b)
		case *of.GroupMod:
			m, how = of.NewGroupMod(), "NewGroupMod().UnmarshalBinary"
			err = m.UnmarshalBinary(b)
		case *of.PortMod:
			m, how = of.NewPortMod(0), "NewPortMod().UnmarshalBinary"
			err = m.UnmarshalBinary(b)
		default:
			how = "Parse"
			m, err = of.Parse(b)
		}
	})
	return
}

// roundTrip judges one value against its decode. what = kind name for signatures.
func roundTrip(c *ev.Collector, t ev.Fataler, what string, orig util.Message, b []byte, dec util.Message, how string, extent int) bool {
	rep := map[string]any{"kind": what, "hex": hx(b), "decoded_by": how}
	if isNilMsg(dec) {
		c.Report(t, "C05|"+what+"|decode-nil", how+" returned no value :: "+hx(b), rep)
		return false
	}
	if reflect.TypeOf(dec) != reflect.TypeOf(orig) {
		c.Report(t, "C05|"+what+"|kind", fmt.Sprintf("%s gave %T for an encoded %T :: %s", how, dec, orig, hx(b)), rep)
		return false
	}
	want, got := obsDumpMsg(denoted(orig)), obsDumpMsg(dec)
	if want != got {
		c.Report(t, "C05|"+what+"|value-mismatch|"+diffField(want, got), fmt.Sprintf("%s: %s :: %s", how, obs.FirstDiff(want, got), hx(b[:extent])), rep)
		return false
	}
	if l, fr := safeLen(dec); fr != "" || l != extent {
		c.Report(t, "C05|"+what+"|Len-after-decode", fmt.Sprintf("decoded value reports Len()=%d (panic %q), its encoding occupies %d bytes :: %s", l, fr, extent, hx(b[:extent])), rep)
		return false
	}
	b2, fr, msg := safeMarshal(dec)
	if fr != "" {
		c.Report(t, "C05|"+what+"|reencode-panic|"+fr, msg+" :: "+hx(b[:extent]), rep)
		return false
	}
	if !bytes.Equal(b2, b[:extent]) {
		off := 0
		for off < len(b2) && off < extent && b2[off] == b[off] {
			off++
		}
		c.Report(t, "C05|"+what+"|reencode-differs", fmt.Sprintf("re-encoding differs at byte %d: %s vs original %s", off, hx(b2), hx(b[:extent])), rep)
		return false
	}
	return true
}

// diffField names the innermost struct field in front of the first difference
// of two dumps (signature detail).
func diffField(a, b string) string {
	i := 0
	for i < len(a) && i < len(b) && a[i] == b[i] {
		i++
	}
	s := a
	if i > len(s) {
		i = len(s)
	}
	j := strings.LastIndex(s[:i], ":")
	if j < 0 {
		return "?"
	}
	k := strings.LastIndexAny(s[:j], " {[(&")
	// enclosing type name
	ty := ""
	if p := strings.LastIndex(s[:k+1], "{"); p > 0 {
		q := strings.LastIndexAny(s[:p], " {[(&:")
		ty = s[q+1:p] + "."
	}
	return ty + s[k+1:j]
}

var c05TopKinds = map[string]bool{}

func TestC05(t *testing.T) {
	c := ev.For("C05")
	defer c.Done()
	c.Rule("rapid: (a) top-level messages built through the API - every controller-originated kind and every switch-originated kind the library can construct - encoded by the library and decoded through openflow13.Parse " +
		"(packet-out, group-mod, port-mod, which Parse does not dispatch: through the receiver a caller allocates with the constructor); (b) elements - every action kind, instruction kind, bucket, match, match field - " +
		"alone and followed by another generated element of the same family, decoded through DecodeAction / DecodeInstr / new(T).UnmarshalBinary (the decoder must stop at its own extent); " +
		"(c) lists of 2..n mixed elements through their containers. Oracle: decode succeeds, same Go kind, observable dump equal (exported fields; " + obsNorms + "), Len() after decode == extent, re-encoding == original bytes. " +
		"Non-trivial: the value has >= 3 nodes in its denoted tree or is followed by another element; distinct by hash of (kind, bytes).")
	c.Assume("two-way = both an encoder and a decoder that the library's own dispatchers reach; match fields that DecodeMatchField does not map are outside (avoided by the generator, counted)",
		"generator preconditions of DESIGN.md Appendix B")
	regressC05(t, c)
	checkRapid(t, c, c05Prop(c))
}

// FuzzC05: coverage-guided driver of the same property (thorough tier only).
func FuzzC05(f *testing.F) {
	c := ev.For("C05")
	f.Fuzz(rapid.MakeFuzz(guardLib(c, c05Prop(c))))
}

func c05Prop(c *ev.Collector) func(rt *rapid.T) {
	return func(rt *rapid.T) {
		c.Eval()
		switch gen.Pick(rt, "what", 7) {
		case 0, 1:
			c05Top(c, rt, false)
		case 2:
			c05Top(c, rt, true)
		case 3:
			c05Decoded(c, rt)
		default:
			c05Element(c, rt)
		}
	}
}

func avoidOneWay(g *gen.G) {
	for _, fg := range gen.Fields {
		if !fg.TwoWay {
			g.Avoid[fg.Name] = true
		}
	}
}

func c05Top(c *ev.Collector, rt *rapid.T, switchSide bool) {
	g := gen.New(rt, drawBudget(rt))
	avoidOneWay(g)
	var lib util.Message
	var kind string
	nodes := 0
	if switchSide {
		sm := g.SwitchMessage()
		if sm.Lib == nil {
			c.Excluded("switch kind the library has no constructor for (" + sm.Kind + ")")
			return
		}
		lib, kind = sm.Lib, "sw."+sm.Kind
		nodes, _ = sm.Tree.Count()
	} else {
		m, n, k := g.Message()
		lib, kind = m, k
		nodes, _ = n.Count()
	}
	// what a bundle-add can give back depends on the (innermost) message it carries
	for cur, depth := lib, 0; depth < 4; depth++ {
		vh, ok := cur.(*of.VendorHeader)
		if !ok {
			break
		}
		ba, ok := vh.VendorData.(*of.BundleAdd)
		if !ok || ba.Message == nil {
			break
		}
		if _, nested := ba.Message.(*of.VendorHeader); !nested {
			if ib, _, _ := safeMarshal(ba.Message); len(ib) > 1 {
				kind = fmt.Sprintf("bundle_add(inner_type=%d)", ib[1])
			}
		}
		cur = ba.Message
	}
	addLabels(c, g.Labels)
	c.Label("top=" + kind)
	b, fr, msg := safeMarshal(lib)
	if fr != "" {
		c.Report(rt, "C05|"+kind+"|encode-panic|"+fr, msg, kind)
		return
	}
	if nodes >= 3 {
		c.NonTrivial(ev.Hash64([]byte(kind), b))
	}
	if c.WantSample() {
		c.Sample(map[string]any{"kind": kind, "bytes": len(b), "hex": clipHex(b, 96)})
	}
	extent := len(b)
	in := b
	if !readsToEnd[strings.TrimPrefix(kind, "sw.")] && !c.IsKnown("C05|"+kind+"|decode-error") && gen.Pick(rt, "frame_followed", 3) == 0 {
		// position for top-level messages: the next frame of the stream sits right behind this one in the
		// buffer; the decoder must stop where the header length says
		in = append(append([]byte{}, b...), 4, 2, 0, 16, 0xaa, 0xbb, 0xcc, 0xdd, 1, 2, 3, 4, 5, 6, 7, 8)
		c.Label("frame_followed_by_another")
	}
	dec, how, err, pf, pm := decodeTop(lib, in)
	rep := map[string]any{"kind": kind, "hex": hx(in)}
	pos := ""
	if len(in) > extent {
		pos = "|followed"
	}
	if pf != "" {
		c.Report(rt, "C05|"+kind+"|decode-panic|"+pf+pos, how+": "+pm+" :: "+hx(in), rep)
		return
	}
	if err != nil {
		c.Report(rt, "C05|"+kind+"|decode-error"+pos, how+": "+err.Error()+" :: "+hx(in), rep)
		return
	}
	roundTrip(c, rt, kind+pos, lib, in, dec, how, extent)
}

// readsToEnd: top-level kinds whose decoders consume the whole slice they are
// given instead of stopping at the header length (element list / payload to the
// end of the input). The stream and the bundle decoder always hand them exactly
// one frame, so this is not judged; every other kind is also decoded with the
// next frame behind it.
var readsToEnd = map[string]bool{"hello": true, "error": true, "error_exp": true, "features_reply": true, "packet_in": true, "packet_out": true, "group_mod": true, "port_mod": true, "mp_request": true}

// c05Decoded: values that only the decoder can produce (ONF experimenter-class
// match fields, hello with several elements, echo, stats records ...): a
// conformant switch frame from the independent encoder is parsed, and the
// resulting value must itself survive the encode/decode cycle.
func c05Decoded(c *ev.Collector, rt *rapid.T) {
	g := gen.New(rt, drawBudget(rt))
	avoidOneWay(g)
	sm := g.SwitchMessage()
	injectONFFields(rt, g, sm.Tree)
	if gen.Pick(rt, "bundle_add_with_property_data", 10) == 0 {
		// a value only a decoder can make: a bundle-add whose experimenter properties carry data (the field is
		// not exported and has no setter). The frame comes from the model; what Parse makes of it is the value.
		_, tree := g.MessageOf("bundle_add")
		props := 0
		for _, k := range tree.Kids {
			if k.Kind == "bundle_prop.experimenter" {
				props++
			}
		}
		if props == 0 {
			tree.Add(spec.N("bundle_prop.experimenter", spec.U("experimenter", uint64(g.U32("prop_exp"))), spec.U("exp_type", uint64(g.U32("prop_type"))), spec.B("data", nil)))
		}
		for _, k := range tree.Kids {
			if k.Kind == "bundle_prop.experimenter" {
				for i := range k.F {
					if k.F[i].Name == "data" {
						k.F[i] = spec.B("data", g.Bytes("prop_data", g.Int("prop_data_len", 1, 21)))
					}
				}
			}
		}
		sm = gen.SwitchMsg{Kind: "bundle_add+property_data", Tree: tree}
		c.Label("bundle_property_with_data")
	}
	wire, big := encodeModel(sm.Tree)
	if big {
		c.Excluded("model size > 65535")
		return
	}
	kind := "decoded." + sm.Kind
	var v util.Message
	var err error
	if fr, _ := safeCall(func() { v, err = of.Parse(wire) }); fr != "" || err != nil || isNilMsg(v) {
		c.Excluded("conformant frame not parsed (C04's business)")
		return
	}
	addLabels(c, g.Labels)
	c.Label("top=" + kind)
	b, fr, msg := safeMarshal(v)
	if fr != "" {
		c.Report(rt, "C05|"+kind+"|encode-panic|"+fr, msg+" :: parsed from "+hx(wire), map[string]any{"kind": kind, "wire": hx(wire)})
		return
	}
	c.NonTrivial(ev.Hash64([]byte(kind), b))
	// the six standard actions the pinned tree decodes into a bare 4-byte header (known finding of C04,
	// one root cause): a frame carrying one cannot come back as it was
	bare := false
	sm.Tree.Walk(func(n *spec.Node) {
		switch n.Kind {
		case "act.copy_ttl_out", "act.copy_ttl_in", "act.dec_mpls_ttl", "act.pop_pbb", "act.set_mpls_ttl", "act.set_nw_ttl":
			bare = true
		}
	})
	if bare {
		// nothing behind such an action is where it belongs in the decoded value: no round trip to judge
		c.Excluded("decoded frame carries a standard action that is decoded as a bare header (known finding of C04)")
		return
	}
	if !bytes.Equal(b, wire) {
		// The value exists only as the decoder made it, and the model's frames are canonical (one wire form per
		// value, zero padding): what the value encodes to is the frame it was made from. The round trip below
		// starts from the decoded value and cannot see what the decoder left out of it. Not judged here: echo
		// request / reply (their payload has no place in the returned value: known finding of C04) and hello (a
		// decoder skips the elements it does not know, as the specification tells it to).
		switch sm.Kind {
		case "echo_request", "echo_reply", "hello":
			c.Excluded("decoded " + sm.Kind + ": frame equality not demanded")
			goto roundtrip
		}
		c.Report(rt, "C05|"+kind+"|reencode-differs-from-frame", fmt.Sprintf("parsed from %s, encodes to %s", hx(wire), hx(b)), map[string]any{"kind": kind, "wire": hx(wire)})
		return
	}
roundtrip:
	dec, how, err, pf, pm := decodeTop(v, b)
	rep := map[string]any{"kind": kind, "hex": hx(b), "parsed_from": hx(wire)}
	if pf != "" {
		c.Report(rt, "C05|"+kind+"|decode-panic|"+pf, how+": "+pm+" :: "+hx(b), rep)
		return
	}
	if err != nil {
		c.Report(rt, "C05|"+kind+"|decode-error", how+": "+err.Error()+" :: re-encoding "+hx(b)+" of the value parsed from "+hx(wire), rep)
		return
	}
	roundTrip(c, rt, kind, v, b, dec, how, len(b))
}

func c05Element(c *ev.Collector, rt *rapid.T) {
	g := gen.New(rt, 1200)
	avoidOneWay(g)
	type elem struct {
		m    util.Message
		name string
	}
	var family string
	draw := func() elem { return elem{} }
	var decode func(b []byte) (util.Message, error)
	switch gen.Pick(rt, "family", 6) {
	case 5:
		// stand-alone kinds with both codecs that the other families reach only embedded: stats request bodies,
		// port description, TLV map, hello element, header, buffer (receiver: a fresh value of the same type)
		family = "small"
		var last util.Message
		draw = func() elem { v, k, _ := smallKind(rt, g); last = v; return elem{v, k} }
		decode = func(b []byte) (util.Message, error) {
			d := freshSmall(last0(&last))
			return d, d.UnmarshalBinary(b)
		}
	case 0, 1:
		family = "action"
		draw = func() elem { a, _, n := g.Action(); return elem{a, n} }
		decode = func(b []byte) (util.Message, error) { return of.DecodeAction(b) }
	case 2:
		family = "instr"
		draw = func() elem { i, _, n := g.Instr(); return elem{i, n} }
		decode = func(b []byte) (util.Message, error) { return of.DecodeInstr(b), nil }
	case 3:
		family = "field"
		draw = func() elem { f, _, n := g.Field(); return elem{f, n} }
		decode = func(b []byte) (util.Message, error) { f := new(of.MatchField); return f, f.UnmarshalBinary(b) }
	case 4:
		family = "bucket"
		draw = func() elem { b, _ := g.Bucket(); return elem{b, "bucket"} }
		decode = func(b []byte) (util.Message, error) { k := new(of.Bucket); return k, k.UnmarshalBinary(b) }
	}
	e := draw()
	first := e.m
	if family == "small" {
		decode = func(b []byte) (util.Message, error) {
			d := freshSmall(first)
			return d, d.UnmarshalBinary(b)
		}
	}
	what := family + "." + e.name
	b, fr, msg := safeMarshal(e.m)
	if fr != "" {
		c.Report(rt, "C05|"+what+"|encode-panic|"+fr, msg, what)
		return
	}
	extent := len(b)
	follow := ""
	// raw buffers and bare element headers have no extent of their own: they are whatever slice they are given
	_, isBuf := e.m.(*util.Buffer)
	_, isHdr := e.m.(*common.HelloElemHeader)
	if !isBuf && !isHdr && rapid.Bool().Draw(rt, "followed") {
		w := draw()
		wb, fr2, _ := safeMarshal(w.m)
		if fr2 == "" {
			b = append(b, wb...)
			follow = w.name
			c.Label("element_followed_by_another")
		}
	}
	c.Label("elem=" + what)
	addLabels(c, g.Labels)
	if follow != "" || extent > 16 {
		c.NonTrivial(ev.Hash64([]byte(what), b))
	}
	if c.WantSample() {
		c.Sample(map[string]any{"element": what, "followed_by": follow, "hex": clipHex(b, 96)})
	}
	var dec util.Message
	var err error
	pf, pm := safeCall(func() { dec, err = decode(append([]byte{}, b...)) })
	rep := map[string]any{"element": what, "followed_by": follow, "hex": hx(b)}
	pos := "alone"
	if follow != "" {
		pos = "followed"
	}
	if pf != "" {
		c.Report(rt, "C05|"+what+"|decode-panic|"+pf, fmt.Sprintf("(%s) %s :: %s", pos, pm, hx(b)), rep)
		return
	}
	if err != nil {
		c.Report(rt, "C05|"+what+"|decode-error|"+pos, err.Error()+" :: "+hx(b), rep)
		return
	}
	roundTrip(c, rt, what, e.m, b, dec, family+" decoder ("+pos+")", extent)
}

var _ = common.Header{}

func last0(p *util.Message) util.Message { return *p }

// freshSmall allocates the receiver for a stand-alone small kind the way a
// caller does: through the constructor where one exists, else new(T).
func freshSmall(v util.Message) util.Message {
	switch v.(type) {
	case *of.FlowStatsRequest:
		return of.NewFlowStatsRequest()
	case *of.AggregateStatsRequest:
		return of.NewAggregateStatsRequest()
	case *of.PortStatsRequest:
		return of.NewPortStatsRequest()
	case *of.QueueStatsRequest:
		return of.NewQueueStatsRequest()
	case *of.PhyPort:
		return of.NewPhyPort()
	case *common.HelloElemVersionBitmap:
		return common.NewHelloElemVersionBitmap()
	case *common.HelloElemHeader:
		return common.NewHelloElemHeader()
	}
	return reflect.New(reflect.TypeOf(v).Elem()).Interface().(util.Message)
}
