package checks

import (
	"bytes"
	"fmt"
	"testing"

	"github.com/contiv/libOpenflow/common"
	of "github.com/contiv/libOpenflow/openflow13"
	"github.com/contiv/libOpenflow/protocol"
	"github.com/contiv/libOpenflow/util"
	"pgregory.net/rapid"
	"verifharness/ev"
)

// C06 — reported size equals encoded size; containers embed children intact
// (DESIGN.md section 10, C06).

// seg is one stretch of a container's encoding after its own header: a child
// (its complete stand-alone encoding) or a run of zero bytes.
type seg struct {
	kid  util.Message
	zero int
}

func kids[T util.Message](l []T) []seg {
	var out []seg
	for _, k := range l {
		out = append(out, seg{kid: k})
	}
	return out
}

// layoutOf says how a container's encoding is composed: header bytes, then the
// segments, then zero padding to the end. ok=false for leaves.
func layoutOf(v util.Message) (hdr int, segs []seg, ok bool) {
	switch c := v.(type) {
	case *of.InstrActions:
		return 8, kids(c.Actions), true
	case *of.Bucket:
		return 16, kids(c.Actions), true
	case *of.Match:
		for i := range c.Fields {
			segs = append(segs, seg{kid: &c.Fields[i]})
		}
		return 4, segs, true
	case *of.FlowMod:
		segs = []seg{{kid: &c.Match}}
		if c.Command != of.FC_DELETE && c.Command != of.FC_DELETE_STRICT {
			segs = append(segs, kids(c.Instructions)...)
		}
		return 48, segs, true
	case *of.GroupMod:
		if c.Command != of.OFPGC_DELETE {
			for i := range c.Buckets {
				segs = append(segs, seg{kid: &c.Buckets[i]})
			}
		}
		return 16, segs, true
	case *of.PacketOut:
		segs = kids(c.Actions)
		if c.Data != nil {
			segs = append(segs, seg{kid: c.Data})
		}
		return 24, segs, true
	case *of.PacketIn:
		return 24, []seg{{kid: &c.Match}, {zero: 2}, {kid: &c.Data}}, true
	case *of.FlowRemoved:
		return 48, []seg{{kid: &c.Match}}, true
	case *of.FlowStats:
		return 48, append([]seg{{kid: &c.Match}}, kids(c.Instructions)...), true
	case *of.FlowStatsRequest:
		return 32, []seg{{kid: &c.Match}}, true
	case *of.AggregateStatsRequest:
		return 32, []seg{{kid: &c.Match}}, true
	case *of.MultipartReply:
		return 16, kids(c.Body), true
	case *of.MultipartRequest:
		if c.Body != nil {
			return 16, []seg{{kid: c.Body}}, true
		}
	case *common.Hello:
		return 8, kids(c.Elements), true
	case *of.VendorHeader:
		if c.VendorData != nil {
			return 16, []seg{{kid: c.VendorData}}, true
		}
	case *of.BundleAdd:
		segs = []seg{{kid: c.Message}}
		if len(c.Properties) > 0 {
			// EXT-230: with properties, the carried message is zero-padded to a multiple of 8
			if mb, _, _ := safeMarshal(c.Message); len(mb)%8 != 0 {
				segs = append(segs, seg{zero: 8 - len(mb)%8})
			}
		}
		for i := range c.Properties {
			segs = append(segs, seg{kid: &c.Properties[i]})
		}
		return 8, segs, true
	case *of.TLVTableMod:
		return 8, kids(c.TlvMaps), true
	case *of.TLVTableReply:
		return 16, kids(c.TlvMaps), true
	case *of.ActionSetField:
		return 4, []seg{{kid: &c.Field}}, true
	case *of.NXActionRegLoad2:
		return 10, []seg{{kid: c.DstField}}, true
	case *of.NXActionLearn:
		return 32, kids(c.LearnSpecs), true
	case *protocol.Ethernet:
		if c.Data != nil {
			h := 14
			if c.VLANID.VID != 0 {
				h = 18
			} else if c.VLANID.PCP != 0 || c.VLANID.DEI != 0 {
				// priority bits without a VLAN id (what decoding a priority-tagged frame leaves): whether a
				// tag is written is not this property's business (C09); the payload must follow a 14- or
				// 18-byte header intact either way
				h = -1
			}
			return h, []seg{{kid: c.Data}}, true
		}
	case *protocol.IPv4:
		if c.Data != nil {
			return int(c.IHL) * 4, []seg{{kid: c.Data}}, true
		}
	case *protocol.IPv6:
		// extension headers in next-header order, then the payload
		nh := c.NextHeader
		for hops := 0; hops < 4; hops++ {
			switch {
			case nh == protocol.Type_HBH && c.HbhHeader != nil:
				segs, nh = append(segs, seg{kid: c.HbhHeader}), c.HbhHeader.NextHeader
				continue
			case nh == protocol.Type_Routing && c.RoutingHeader != nil:
				segs, nh = append(segs, seg{kid: c.RoutingHeader}), c.RoutingHeader.NextHeader
				continue
			case nh == protocol.Type_Fragment && c.FragmentHeader != nil:
				segs, nh = append(segs, seg{kid: c.FragmentHeader}), c.FragmentHeader.NextHeader
				continue
			}
			break
		}
		if c.Data != nil {
			segs = append(segs, seg{kid: c.Data})
		}
		return 40, segs, true
	case *protocol.HopByHopHeader:
		return 2, kids(c.Options), true
	case *protocol.IGMPv3MembershipReport:
		for i := range c.GroupRecords {
			segs = append(segs, seg{kid: &c.GroupRecords[i]})
		}
		return 8, segs, true
	}
	return 0, nil, false
}

// checkSizeAndEmbedding walks v and everything nested in it.
func checkSizeAndEmbedding(c *ev.Collector, t ev.Fataler, kind string, v util.Message, depth int, stats *embedStats) bool {
	if isNilMsg(v) || depth > 8 {
		return true
	}
	tn := fmt.Sprintf("%T", v)
	l0, lf := safeLen(v)
	b, fr, msg := safeMarshal(v)
	if fr != "" {
		c.Report(t, "C06|"+tn+"|encode-panic|"+fr, msg+" (inside "+kind+")", kind)
		return false
	}
	l1, _ := safeLen(v)
	if lf != "" || l0 != len(b) || l1 != len(b) {
		c.Report(t, "C06|"+tn+"|Len-vs-bytes", fmt.Sprintf("%s (inside %s): Len() %d before / %d after encoding (panic %q), %d bytes encoded: %s", tn, kind, l0, l1, lf, len(b), hx(b)), map[string]any{"kind": kind, "type": tn, "hex": hx(b)})
		return false
	}
	hdr, segs, ok := layoutOf(v)
	if !ok {
		return true
	}
	stats.containers++
	if hdr == -1 {
		kb, _, _ := safeMarshal(segs[0].kid)
		hdr = len(b) - len(kb)
		if hdr != 14 && hdr != 18 {
			c.Report(t, fmt.Sprintf("C06|%s|embed|child-not-intact|%T", tn, segs[0].kid), fmt.Sprintf("the payload (%T, %d bytes) does not fit behind a 14- or 18-byte header in the %d bytes of the frame :: container %s", segs[0].kid, len(kb), len(b), hx(b)), map[string]any{"kind": kind, "container": tn, "hex": hx(b)})
			return false
		}
	}
	if hdr > len(b) {
		c.Report(t, "C06|"+tn+"|embed|shorter-than-header", fmt.Sprintf("%d bytes, header is %d", len(b), hdr), kind)
		return false
	}
	off := hdr
	sizes := map[int]bool{}
	for i, s := range segs {
		if s.kid == nil {
			for j := 0; j < s.zero; j++ {
				if off+j >= len(b) || b[off+j] != 0 {
					c.Report(t, "C06|"+tn+"|embed|gap-not-zero", fmt.Sprintf("gap after child %d at offset %d: %s", i-1, off, hx(b)), kind)
					return false
				}
			}
			off += s.zero
			continue
		}
		if isNilMsg(s.kid) {
			continue
		}
		kb, kfr, kmsg := safeMarshal(s.kid)
		if kfr != "" {
			c.Report(t, fmt.Sprintf("C06|%T|encode-panic|%s", s.kid, kfr), kmsg+" (child of "+tn+")", kind)
			return false
		}
		stats.children++
		sizes[len(kb)%8] = true
		if off+len(kb) > len(b) || !bytes.Equal(b[off:off+len(kb)], kb) {
			end := off + len(kb)
			if end > len(b) {
				end = len(b)
			}
			c.Report(t, fmt.Sprintf("C06|%s|embed|child-not-intact|%T", tn, s.kid), fmt.Sprintf("child %d (%T, %d bytes: %s) is not found intact at offset %d of its container (%d bytes): there %s :: container %s",
				i, s.kid, len(kb), hx(kb), off, len(b), hx(b[off:end]), hx(b)), map[string]any{"kind": kind, "container": tn, "hex": hx(b)})
			return false
		}
		off += len(kb)
	}
	for j := off; j < len(b); j++ {
		if b[j] != 0 {
			c.Report(t, "C06|"+tn+"|embed|trailing-not-zero", fmt.Sprintf("bytes after the last child (offset %d) are not zero padding: %s :: container %s", off, hx(b[off:]), hx(b)), kind)
			return false
		}
	}
	if len(b)-off > 7 {
		c.Report(t, "C06|"+tn+"|embed|excess-padding", fmt.Sprintf("%d bytes follow the last child", len(b)-off), kind)
		return false
	}
	if len(sizes) >= 2 {
		stats.mixed = true
	}
	for _, s := range segs {
		if s.kid != nil && !checkSizeAndEmbedding(c, t, kind, s.kid, depth+1, stats) {
			return false
		}
	}
	return true
}

type embedStats struct {
	containers, children int
	mixed                bool
}

func TestC06(t *testing.T) {
	c := ev.For("C06")
	defer c.Done()
	c.Rule("rapid: one value of any encodable kind of any package per case (messages of both directions, every action / instruction / match-field kind, bucket, match, stats records and request bodies, hello elements, " +
		"vendor payloads, TLV maps, bundle properties, util.Buffer, every packet-header kind incl. DHCP and its options), built through the API with any nesting it allows. Oracle, applied to the value and recursively to " +
		"everything nested in it: Len() before and after encoding == len(encoding); for containers (28 kinds) the encoding after the container's own header is exactly the complete stand-alone encodings of the children in order " +
		"(children encoded after the parent), then only zero padding of at most 7 bytes. Non-trivial: a container with >= 2 children of different size classes (mod 8), or a leaf whose size depends on its content; distinct by hash of (kind, bytes).")
	c.Assume("container header sizes and child order are taken from the wire layouts of DESIGN.md Appendix A (not from the library's Len())",
		"NXActionConnTrack keeps its nested actions in an unexported field without accessor: its embedding is judged by C02/C03 through the wire model only")
	checkRapid(t, c, func(rt *rapid.T) {
		c.Eval()
		switch rapid.IntRange(0, 14).Draw(rt, "dhcp_lldp?") {
		case 0:
			c06DHCP(c, rt)
			return
		case 1:
			c06LLDP(c, rt)
			return
		}
		gv := anyValue(rt, drawBudget(rt))
		addLabels(c, gv.labels)
		c.Label("family=" + gv.family)
		if e, ok := gv.v.(*protocol.Ethernet); ok && e.VLANID.VID == 0 && rapid.IntRange(0, 2).Draw(rt, "priority_bits_without_vid") == 0 {
			// the value a decoder leaves for a priority-tagged frame: priority / DEI set, VLAN id 0
			e.VLANID.PCP, e.VLANID.DEI = uint8(rapid.IntRange(0, 7).Draw(rt, "pcp")), uint8(rapid.IntRange(0, 1).Draw(rt, "dei"))
			c.Label("ethernet_priority_bits_without_vid")
		}
		var st embedStats
		ok := checkSizeAndEmbedding(c, rt, gv.kind, gv.v, 0, &st)
		if ok {
			b, _, _ := safeMarshal(gv.v)
			if st.mixed || (st.containers == 0 && len(b)%8 != 0) || st.children >= 2 {
				c.NonTrivial(ev.Hash64([]byte(gv.kind), b))
			}
			if st.containers > 0 {
				c.Label("has_container")
			}
			if c.WantSample() {
				c.Sample(map[string]any{"kind": gv.kind, "bytes": len(b), "containers_walked": st.containers, "children_compared": st.children, "hex": clipHex(b, 64)})
			}
		}
	})
}

// DHCP and its options encode through Read / DHCPMarshalOption.
func c06DHCP(c *ev.Collector, rt *rapid.T) {
	gv := genNew(rt)
	m := gv.DHCP()
	c.Label("family=dhcp")
	buf := make([]byte, len(m.Wire)+600)
	n, err := m.Val.Read(buf)
	if err != nil {
		c.Report(rt, "C06|DHCP|encode-error", err.Error(), nil)
		return
	}
	if int(m.Val.Len()) != n {
		c.Report(rt, "C06|*protocol.DHCP|Len-vs-bytes", fmt.Sprintf("Len() %d, %d bytes encoded (%d options)", m.Val.Len(), n, len(m.Val.Options)), hx(buf[:n]))
		return
	}
	off := 240
	for i, o := range m.Val.Options {
		ob, err := protocol.DHCPMarshalOption(o)
		if err != nil {
			c.Report(rt, "C06|DHCPOption|encode-error", err.Error(), nil)
			return
		}
		if int(o.Len()) != len(ob) {
			c.Report(rt, "C06|DHCPOption|Len-vs-bytes", fmt.Sprintf("option tag %d: Len() %d, %d bytes encoded", o.OptionType(), o.Len(), len(ob)), hx(ob))
			return
		}
		if off+len(ob) > n || !bytes.Equal(buf[off:off+len(ob)], ob) {
			c.Report(rt, "C06|*protocol.DHCP|embed|child-not-intact|DHCPOption", fmt.Sprintf("option %d (%s) not intact at offset %d of %s", i, hx(ob), off, hx(buf[:n])), hx(buf[:n]))
			return
		}
		off += len(ob)
	}
	if len(m.Val.Options) >= 2 {
		c.NonTrivial(ev.Hash64([]byte("dhcp"), buf[:n]))
	}
}

// LLDP frames encode through Read.
func c06LLDP(c *ev.Collector, rt *rapid.T) {
	l := genNew(rt).LLDP()
	c.Label("family=lldp")
	buf := make([]byte, 64+len(l.Val.Chassis.Data)+len(l.Val.Port.Data))
	n, err := l.Val.Read(buf)
	if err != nil {
		c.Report(rt, "C06|LLDP|encode-error", err.Error(), nil)
		return
	}
	c.NonTrivial(ev.Hash64([]byte("lldp"), buf[:n]))
	if int(l.Val.Len()) != n {
		c.Report(rt, "C06|*protocol.LLDP|Len-vs-bytes", fmt.Sprintf("Len() %d, %d bytes encoded (chassis id %d bytes, port id %d bytes)", l.Val.Len(), n, len(l.Val.Chassis.Data), len(l.Val.Port.Data)), hx(buf[:n]))
		return
	}
	// the three TLVs in order, intact
	off := 0
	for i, tlv := range []interface{ Read([]byte) (int, error) }{&l.Val.Chassis, &l.Val.Port, &l.Val.TTL} {
		tb := make([]byte, 600)
		m, _ := tlv.Read(tb)
		if off+m > n || !bytes.Equal(buf[off:off+m], tb[:m]) {
			c.Report(rt, "C06|*protocol.LLDP|embed|child-not-intact", fmt.Sprintf("TLV %d (%s) not intact at offset %d of %s", i, hx(tb[:m]), off, hx(buf[:n])), hx(buf[:n]))
			return
		}
		off += m
	}
}
