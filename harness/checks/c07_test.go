package checks

import (
	"encoding/binary"
	"encoding/hex"
	"fmt"
	"os"
	"reflect"
	"strings"
	"testing"

	of "github.com/contiv/libOpenflow/openflow13"
	"github.com/contiv/libOpenflow/util"
	"pgregory.net/rapid"
	"verifharness/ev"
	"verifharness/gen"
)

// C07 — openflow13.Parse is total (DESIGN.md section 10, C07).

type parseOut struct {
	m   util.Message
	err error
}

func isNilMsg(m util.Message) bool {
	if m == nil {
		return true
	}
	v := reflect.ValueOf(m)
	return v.Kind() == reflect.Ptr && v.IsNil()
}

// nilNilTypes: type codes for which Parse returns neither message nor error
// are reported under one signature per set (see KNOWN_FINDINGS / fixed list).
func parseTotal(c *ev.Collector, t ev.Fataler, in []byte, kind string, muts []string, fatalOnHang bool) (class string) {
	var po parseOut
	input := append([]byte{}, in...) // Parse must not need to modify its input; keep a pristine copy for the report
	o := guarded(func() {
		po.m, po.err = of.Parse(in)
		if po.err != nil {
			// an error is there to be shown: the stream logs every parse error with %v, and so does any caller
			_ = fmt.Sprintf("%v", po.err)
		}
	})
	rep := map[string]any{"hex": hex.EncodeToString(input), "seed_kind": kind, "mutations": muts}
	ty := -1
	if len(input) > 1 {
		ty = int(input[1])
	}
	sym, detail := judgeTotality(o, len(input))
	if sym != "" {
		sig := "C07|Parse|" + sym
		detail = fmt.Sprintf("%s :: type=%d len=%d seed=%s mutations=%v :: %s", detail, ty, len(input), kind, muts, clipHex(input, 160))
		if o.hung || o.heap {
			if fatalOnHang {
				fatalTotality(c, sig, detail, input, rep)
			}
			c.Report(t, sig, detail, rep)
			return sym
		}
		c.Report(t, sig, detail, rep)
		return strings.SplitN(sym, "|", 2)[0]
	}
	if po.err == nil && isNilMsg(po.m) {
		c.Report(t, fmt.Sprintf("C07|Parse|nil-nil|type=%d", ty), fmt.Sprintf("neither message nor error for type %d :: %s", ty, clipHex(input, 64)), rep)
		return "nil-nil"
	}
	if po.err != nil {
		return "error"
	}
	return "message"
}

func c07Rule(c *ev.Collector) {
	c.Rule("byte strings <= 65535 from four hostile layers, all inside rapid: (L1) conformant frames of every kind from the independent encoder with 1..3 structural fields " +
		"(length/count/type/subtype/vendor slots located by the model's decoder; adjacent pairs in half the cases) overridden from {0,1,2,3,4,7,8,9,15,16,cur+-1,cur+-8,max,max-1,max-2,max-6..8,max/2,remaining,remaining+-1,0xfff8,0xfffe,254,255,256,...}; " +
		"(L2) truncation at any offset, overwrite of aligned 8/16/32-bit windows, random bytes, splices of two frames; (L3) arbitrary bodies behind a header of any type code 0..40 with right or wrong length; " +
		"(L4) an element, valid or already mutated, repeated until the frame reaches 16..64 KiB. TestC07Trunc enumerates every truncation offset of one or more seed frames of every kind (with and without the header length adjusted). " +
		"Oracle: Parse returns (message|error), never (nil,nil), no panic escapes, returns within 20 s, live heap grows < 1 GiB, bytes allocated <= 1 KiB*len + 4 MiB. " +
		"Non-trivial: the input differs from a conformant frame, has >= 8 bytes and a type code that Parse dispatches (so a nested decoder is reached); distinct by hash of the input.")
	c.Assume("allocation volume is a proxy for work proportional to the input: CPU work that allocates nothing and ends before the 20 s hang bound is not seen as super-linear",
		"the 20 s hang bound is 5-6 orders of magnitude above the normal cost of a case; on a hang/heap breach the check process ends (the spinning goroutine cannot be stopped)")
}

var dispatched = map[int]bool{0: true, 1: true, 2: true, 3: true, 4: true, 5: true, 6: true, 7: true, 8: true, 9: true, 10: true, 11: true, 12: true, 14: true, 18: true, 19: true, 20: true, 21: true}

func TestC07(t *testing.T) {
	c := ev.For("C07")
	defer c.Done()
	c07Rule(c)
	if shard0() {
		regressC07(t, c)
	}
	checkRapid(t, c, func(rt *rapid.T) {
		h := hostileFrame(rt)
		c.Eval()
		cls := parseTotal(c, rt, h.b, h.kind, h.muts, true)
		c.Label("outcome=" + cls)
		if !h.valid && len(h.b) >= 8 && dispatched[int(h.b[1])] {
			c.NonTrivial(ev.Hash64(h.b))
		}
		for _, m := range h.muts {
			c.Label("mut=" + strings.SplitN(strings.SplitN(m, " ", 2)[0], "@", 2)[0])
			if i := strings.Index(m, "(pkt/"); i >= 0 {
				c.Label("mut_pkt_field=" + strings.SplitN(m[i+5:], ",", 2)[0])
			}
		}
		if len(h.b) > 32768 {
			c.Label("input>32KiB")
		}
		if len(h.b) == 65535 {
			c.Label("input=65535")
		}
		if c.WantSample() {
			c.Sample(map[string]any{"seed_kind": h.kind, "mutations": h.muts, "len": len(h.b), "hex": clipHex(h.b, 80), "outcome": cls})
		}
	})
}

var c07SeedCtl = func(kind string) *rapid.Generator[[]byte] {
	return rapid.Custom(func(rt *rapid.T) []byte {
		g := gen.New(rt, 400)
		_, n := g.MessageOf(kind)
		b, _ := encodeModel(n)
		return b
	})
}
var c07SeedSw = func(kind string) *rapid.Generator[[]byte] {
	return rapid.Custom(func(rt *rapid.T) []byte {
		g := gen.New(rt, 400)
		sm := g.SwitchMessageOf(kind)
		injectONFFields(rt, g, sm.Tree)
		b, _ := encodeModel(sm.Tree)
		return b
	})
}

// c07Seeds returns deterministic conformant frames of every kind (n per kind).
func c07Seeds(n int) (frames [][]byte, kinds []string) {
	for _, k := range gen.MessageKinds {
		for i := 1; i <= n; i++ {
			frames, kinds = append(frames, c07SeedCtl(k).Example(i)), append(kinds, k)
		}
	}
	for _, k := range gen.SwitchKinds {
		for i := 1; i <= n; i++ {
			frames, kinds = append(frames, c07SeedSw(k).Example(i)), append(kinds, k)
		}
	}
	return
}

// TestC07Trunc: every truncation offset of every seed frame, with the header
// length left alone and adjusted to the truncated size; every single structural
// byte position overwritten with 0x00 and 0xff.
func TestC07Trunc(t *testing.T) {
	c := ev.For("C07")
	defer c.Done()
	c07Rule(c)
	shard, nsh := envInt("VERIF_SHARD", 0), envInt("VERIF_NSHARDS", 1)
	frames, kinds := c07Seeds(ev.Scale(2, 12))
	for fi, f := range frames {
		if fi%nsh != shard || len(f) > 3000 {
			continue
		}
		for cut := 0; cut <= len(f); cut++ {
			for fix := 0; fix < 2; fix++ {
				in := append([]byte{}, f[:cut]...)
				if fix == 1 {
					if cut < 4 {
						continue
					}
					binary.BigEndian.PutUint16(in[2:], uint16(cut))
				}
				c.Eval()
				if cut >= 8 && cut < len(f) {
					c.NonTrivial(ev.Hash64(in))
				}
				parseTotal(c, nil, in, kinds[fi], []string{fmt.Sprintf("truncate@%d fix=%d", cut, fix)}, true)
			}
		}
		for off := 0; off < len(f); off++ {
			for _, v := range []byte{0x00, 0xff} {
				if f[off] == v {
					continue
				}
				in := append([]byte{}, f...)
				in[off] = v
				c.Eval()
				c.NonTrivial(ev.Hash64(in))
				parseTotal(c, nil, in, kinds[fi], []string{fmt.Sprintf("byte@%d=%#x", off, v)}, true)
			}
		}
		c.Label("seed_kind=" + kinds[fi])
	}
	c.Exhaustive("all truncation offsets (x header length kept/adjusted) and all single-byte 0x00/0xff overwrites of the seed frames")
	c.FailIfViolations(t)
}

// FuzzC07Parse: coverage-guided layer (thorough tier only; the saved crasher is the reproducible unit).
func FuzzC07Parse(f *testing.F) {
	frames, _ := c07Seeds(1)
	for _, fr := range frames {
		if len(fr) < 1500 {
			f.Add(fr)
		}
	}
	for _, hx := range []string{"", "04", "0400", "04000008", "0400000800000001", "040a0008000000010000", "0413ffff00000001", "04040010000000010000232000000018",
		"04000010000000010002000800000010", "04130018000000010001000000000000fffffff8ffffffff"} {
		b, _ := hex.DecodeString(hx)
		f.Add(b)
	}
	c := ev.For("C07")
	f.Fuzz(func(t *testing.T, in []byte) {
		if len(in) > 65535 {
			in = in[:65535]
		}
		parseTotal(c, t, in, "fuzz", nil, false)
	})
}

func init() {
	// a fuzz worker is a separate process: it must not inherit the fragment path of the driver run
	if strings.Contains(strings.Join(os.Args, " "), "-test.fuzzworker") {
		os.Unsetenv("VERIF_FRAG")
	}
}
