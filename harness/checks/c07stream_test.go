package checks

import (
	"encoding/binary"
	"fmt"
	"testing"

	of "github.com/contiv/libOpenflow/openflow13"
	"github.com/contiv/libOpenflow/util"
	"pgregory.net/rapid"
	"verifharness/ev"
	"verifharness/gen"
	"verifharness/obs"
)

// TestC07Stream: malformed frames on a live stream. C07's last mechanism is
// "the stream's parser goroutines call the parser on every received frame":
// whatever the parser makes of a frame - an error, for the frames used here -
// the stream must keep working. A script mixes frames that Parse rejects
// (well-framed: header length = size >= 8, so the de-framer is not involved)
// with conformant ones; up to 160 rejected frames, i.e. more than three times
// the 50 pooled buffers and the 25 parser goroutines. Oracle: every conformant
// frame is delivered, equal to what a direct Parse gives, within the loss
// bound; nothing that is not one of them is delivered as a message (what the
// stream hands over for a rejected frame - nothing, a nil message, or the partly
// filled value Parse returned next to its error - is not judged).
func TestC07Stream(t *testing.T) {
	c := ev.For("C07")
	defer c.Done()
	c.Rule("TestC07Stream: scripts of 1..30 conformant switch frames interleaved with 0..160 well-framed frames that Parse rejects (unknown type codes, truncated bodies with the header length adjusted, corrupted length fields inside), " +
		"played into a live MessageStream with the real parser in random read chunks; oracle: every conformant frame arrives (deep dump equal to a direct Parse) within 30 s, no other non-nil message arrives. " +
		"Non-trivial: more rejected frames than pool buffers (50) before the last conformant frame.")
	checkRapid(t, c, func(rt *rapid.T) {
		nv := rapid.IntRange(1, 30).Draw(rt, "valid")
		nr := 0
		switch gen.Pick(rt, "rejected_class", 3) {
		case 0:
			nr = rapid.IntRange(0, 20).Draw(rt, "rejected_few")
		default:
			nr = rapid.IntRange(51, 160).Draw(rt, "rejected_many")
		}
		var frames [][]byte
		var wantKeys []string
		isValid := []bool{}
		for i := 0; i < nv; i++ {
			g := gen.New(rt, 300)
			avoidOneWay(g)
			for k := range of10Kinds {
				g.Avoid[k] = true
			}
			sm := g.SwitchMessage()
			sm.Tree.Set("xid", uint64(i+1))
			b, big := encodeModel(sm.Tree)
			if big {
				continue
			}
			m, err := of.Parse(append([]byte{}, b...))
			if err != nil || isNilMsg(m) {
				continue
			}
			frames, wantKeys, isValid = append(frames, b), append(wantKeys, obs.Deep(m)), append(isValid, true)
		}
		if len(frames) == 0 {
			return
		}
		base := frames[0]
		for i := 0; i < nr; i++ {
			var b []byte
			rk := gen.Pick(rt, "rejected_kind", 5)
			switch rk {
			case 4: // a flow-mod whose only action is a Nicira action of a subtype nobody decodes (a different one each time)
				b = make([]byte, 80)
				b[0], b[1] = 4, 14
				binary.BigEndian.PutUint16(b[48:], 1)
				binary.BigEndian.PutUint16(b[50:], 4)
				binary.BigEndian.PutUint16(b[56:], 4)
				binary.BigEndian.PutUint16(b[58:], 24)
				binary.BigEndian.PutUint16(b[64:], 0xffff)
				binary.BigEndian.PutUint16(b[66:], 16)
				binary.BigEndian.PutUint32(b[68:], 0x2320)
				binary.BigEndian.PutUint16(b[72:], uint16(rapid.IntRange(60, 4000).Draw(rt, "rej_nx_subtype")))
			case 3: // a flow-removed whose match carries a field number nobody decodes (class 0x8000 or 0x0001)
				b = make([]byte, 64)
				b[0], b[1] = 4, 11
				b[48+1] = 1  // match type OXM
				b[48+3] = 12 // match length: header + one 8-byte TLV
				cls := []uint16{0x8000, 0x0001}[gen.Pick(rt, "rej_oxm_class", 2)]
				binary.BigEndian.PutUint16(b[52:], cls)
				b[54] = byte(rapid.IntRange(45, 63).Draw(rt, "rej_oxm_field")) << 1
				b[55] = 4
			case 0: // a type code nobody decodes
				n := rapid.IntRange(0, 40).Draw(rt, "rej_body")
				b = make([]byte, 8+n)
				b[0], b[1] = 4, byte(rapid.IntRange(30, 255).Draw(rt, "rej_type"))
			case 1: // a conformant frame cut short, header length adjusted
				src := frames[gen.Pick(rt, "rej_src", nv)%len(frames)]
				if !isValid[gen.Pick(rt, "rej_src", nv)%len(frames)] {
					src = base
				}
				cut := rapid.IntRange(8, len(src)).Draw(rt, "rej_cut")
				b = append([]byte{}, src[:cut]...)
			default: // multipart / experimenter of a kind with no decoder
				b = []byte{4, 19, 0, 16, 0, 0, 0, 0, 0xff, 0xf0, 0, 0, 0, 0, 0, 0}
				b[9] = byte(rapid.IntRange(0x20, 0xef).Draw(rt, "rej_mp"))
			}
			binary.BigEndian.PutUint16(b[2:], uint16(len(b)))
			binary.BigEndian.PutUint32(b[4:], 0x70000000+uint32(i))
			// (the unknown-subtype frames are not parsed beforehand: the parser goroutines are to be the first
			// to meet each subtype, several of them at the same time)
			if rk != 4 {
				if pm, perr := of.Parse(append([]byte{}, b...)); perr == nil && !isNilMsg(pm) {
					continue // this tree parses it: not a rejected frame
				}
			}
			// insert at a random position
			pos := rapid.IntRange(0, len(frames)).Draw(rt, "rej_pos")
			frames = append(frames[:pos], append([][]byte{b}, frames[pos:]...)...)
			isValid = append(isValid[:pos], append([]bool{false}, isValid[pos:]...)...)
		}
		rejBeforeLast, rej := 0, 0
		for i, v := range isValid {
			if !v {
				rej++
			} else if i > 0 {
				rejBeforeLast = rej
			}
		}
		sc := inScript{frames: frames, failAfter: -1}
		var stream []byte
		var starts []int
		for _, f := range frames {
			starts = append(starts, len(stream))
			stream = append(stream, f...)
		}
		// in a third of the scripts the stream ends with a header whose length field is below the header size
		// (0..7) and some bytes behind it: nothing after it can be framed, but everything before it was sent
		// in full and the process lives on
		shortTail := -1
		if gen.Pick(rt, "short_length_tail", 3) == 0 {
			shortTail = rapid.IntRange(0, 7).Draw(rt, "short_length")
			starts = append(starts, len(stream))
			stream = append(stream, 4, byte(rapid.IntRange(0, 30).Draw(rt, "short_type")), 0, byte(shortTail), 0x7f, 0, 0, 1)
			stream = append(stream, rapid.SliceOfN(rapid.Byte(), 0, 40).Draw(rt, "short_trailer")...)
			c.Label("stream_ends_with_length_below_header_size")
		}
		cutStream(rt, stream, starts, &sc)
		sc.consumer = gen.Pick(rt, "consumer", 3)
		sc.procs = []int{1, 2, 4, 16}[gen.Pick(rt, "gomaxprocs", 4)]
		c.Eval()
		desc := fmt.Sprintf("%d conformant and %d rejected frames (%d rejected before the last conformant one), %d bytes in %d reads, consumer=%d GOMAXPROCS=%d, final header with length %d", len(wantKeys), rej, rejBeforeLast, len(stream), len(sc.chunks), sc.consumer, sc.procs, shortTail)
		rep := map[string]any{"script": desc, "frame_sizes": frameSizes(frames, 60)}
		sc.awaited = multiset(wantKeys) // wait for the conformant frames; what rejected frames are handed over as does not count
		got, errs, timedOut, _ := runInbound(sc, ofParser{}, func(m util.Message) string { return obs.Deep(m) }, len(wantKeys))
		want := multiset(wantKeys)
		extras := 0
		for _, d := range got {
			if isNilMsg(d.m) {
				continue
			}
			if want[d.key] > 0 {
				want[d.key]--
				continue
			}
			// not (or no longer) the parse of a conformant frame: a rejected frame may be handed over as
			// whatever Parse returned next to its error - at most one such value per rejected frame
			extras++
		}
		if extras > rej+1 {
			c.Report(rt, "C07|stream|more-messages-than-frames", fmt.Sprintf("%s: %d messages were delivered beyond the conformant frames, the script has only %d rejected frames", desc, extras, rej), rep)
			return
		}
		if len(errs) > 0 {
			// the stream has chosen to treat a malformed frame as a failure of the connection and said so on
			// Error: that is a way of not crashing and not wedging, and after a failure complete frames may go
			// undelivered (C10 allows that) - nothing more to judge in this script
			c.Excluded("stream published an error for a malformed frame")
			return
		}
		missing := 0
		for _, n := range want {
			missing += n
		}
		if missing > 0 {
			c.Report(rt, "C07|stream|wedged-after-rejected-frames", fmt.Sprintf("%s: %d conformant frames were not delivered within %s (timed out: %v, errors %v)", desc, missing, lossWait, timedOut, errs), rep)
			return
		}
		if rejBeforeLast > 50 {
			c.NonTrivial(ev.HashStr("c07stream", desc, fmt.Sprint(frameSizes(frames, 400))))
			c.Label("stream_more_rejected_frames_than_buffers")
		}
		if c.WantSample() {
			c.Sample(map[string]any{"stream_script": desc})
		}
	})
}
