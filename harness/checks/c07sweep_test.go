package checks

import (
	"fmt"
	"strings"
	"testing"

	"pgregory.net/rapid"
	"verifharness/ev"
	"verifharness/gen"
	"verifharness/spec"
)

// TestC07LenSweep: for one small conformant frame per case, EVERY 16-bit length
// field of the frame (message, instruction, action, bucket, property, match
// length ...) is set in turn to EVERY value of the boundary set, including,
// for each enclosing length field L, the values that make a container which
// adds up its children's claimed sizes in 16 bits come out as 0, 4, 8 or 16
// (65536 minus the rest of the container). Half of the frames are built around
// one action kind drawn uniformly from all action constructors, placed alone,
// last or in the middle of an apply-actions instruction, a bucket or a
// packet-out, so that every action decoder meets every claimed length in every
// position. The random layers of TestC07 reach a given (slot, value, element
// kind, position) combination only with small probability; here the slot and
// value dimensions are enumerated.
func TestC07LenSweep(t *testing.T) {
	c := ev.For("C07")
	defer c.Done()
	c07Rule(c)
	checkRapid(t, c, func(rt *rapid.T) {
		var b []byte
		var kind string
		if rapid.Bool().Draw(rt, "around_one_action_kind") {
			g := gen.New(rt, 400)
			ag := gen.Actions[gen.Pick(rt, "action_kind", len(gen.Actions))]
			g.Depth = 1
			_, an := ag.Gen(g)
			out := func(l string) *spec.Node {
				return spec.N("act.output", spec.U("port", uint64(g.U32(l))), spec.U("max_len", 0xffff))
			}
			var list []*spec.Node
			pos := gen.Pick(rt, "position", 4) // alone, last, first, middle
			if pos == 1 || pos == 3 {
				list = append(list, out("before"))
			}
			list = append(list, an)
			if pos >= 2 {
				list = append(list, out("after"))
			}
			container := []string{"flow_mod", "group_mod", "packet_out", "flow_mod"}[gen.Pick(rt, "container", 4)]
			g2 := gen.New(rt, 120)
			_, tree := g2.MessageOf(container)
			var kids []*spec.Node
			switch container {
			case "flow_mod":
				for _, k := range tree.Kids {
					if !strings.HasPrefix(k.Kind, "instr.") {
						kids = append(kids, k)
					}
				}
				in := spec.N([]string{"instr.apply_actions", "instr.write_actions"}[gen.Pick(rt, "instr", 2)])
				in.Add(list...)
				kids = append(kids, in)
				if rapid.Bool().Draw(rt, "goto_after") {
					kids = append(kids, spec.N("instr.goto_table", spec.U("table_id", 3)))
				}
			case "group_mod":
				bk := spec.N("bucket", spec.U("weight", 1), spec.U("watch_port", 0xffffffff), spec.U("watch_group", 0xffffffff))
				bk.Add(list...)
				kids = append(kids, bk)
			default:
				kids = append(kids, list...)
				for _, k := range tree.Kids {
					if !strings.HasPrefix(k.Kind, "act.") && !strings.HasPrefix(k.Kind, "nx.") {
						kids = append(kids, k)
					}
				}
			}
			tree.Kids = kids
			enc, big := encodeModel(tree)
			if big {
				rt.Skip("too big")
			}
			if _, _, err := spec.Decode(enc); err != nil {
				// the rebuilt tree is not a frame the model accepts (e.g. an action list in a kind that has none):
				// fall back to a plain seed frame
				b, kind, _ = seedFrame(rt, 300)
			} else {
				b, kind = enc, fmt.Sprintf("%s[%s@%d]", container, ag.Name, pos)
				c.Label("sweep_action=" + ag.Name)
				c.Label(fmt.Sprintf("sweep_position=%d", pos))
			}
		} else {
			b, kind, _ = seedFrame(rt, 300)
		}
		_, slots, _ := spec.Decode(b)
		var lens []spec.Slot
		for _, s := range slots {
			if s.Class == "len" && s.Width == 2 && s.Off+2 <= len(b) {
				lens = append(lens, s)
			}
		}
		if len(lens) > 40 {
			at := rapid.IntRange(0, len(lens)-40).Draw(rt, "slot_window")
			lens = lens[at : at+40]
		}
		frame := make([]byte, len(b))
		for _, s := range lens {
			cur := getN(b, s.Off, 2)
			rem := uint64(len(b) - s.Off)
			vals := []uint64{0, 1, 2, 3, 4, 7, 8, 9, 15, 16, 17, 23, 24, 25, cur - 1, cur + 1, cur - 8, cur + 8, cur - 4, cur + 4, cur ^ 1, 0x7fff, 0x8000, 0x4000, 0x2000, 0xfff0, 0xfff7, 0xfff8, 0xfff9, 0xfffc, 0xfffe, 0xffff,
				rem, rem + 1, rem - 1, rem + 8, rem - 8, 254, 255, 256}
			for _, t := range lens {
				if t.Off < s.Off {
					if L := getN(b, t.Off, 2); int(L) > s.Off-t.Off && L >= cur {
						for _, k := range []uint64{0, 4, 8, 16} {
							vals = append(vals, cur-L+k, cur-L-k)
						}
					}
				}
			}
			seen := map[uint64]bool{cur: true}
			for _, v := range vals {
				v &= 0xffff
				if seen[v] {
					continue
				}
				seen[v] = true
				copy(frame, b)
				putN(frame, s.Off, 2, v)
				c.Eval()
				mut := fmt.Sprintf("slot len@%d(%s,2B) %#x->%#x", s.Off, tailPath(s.Path), cur, v)
				cls := parseTotal(c, rt, frame, kind, []string{mut}, true)
				c.Label("sweep_outcome=" + cls)
				if dispatched[int(frame[1])] {
					c.NonTrivial(ev.Hash64(frame))
				}
			}
		}
		c.LabelN("sweep_len_slots", int64(len(lens)))
		if c.WantSample() {
			c.Sample(map[string]any{"seed_kind": kind, "len": len(b), "length_slots_swept": len(lens), "hex": clipHex(b, 80)})
		}
	})
}
