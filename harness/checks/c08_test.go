package checks

import (
	"encoding/binary"
	"encoding/hex"
	"fmt"
	"strings"
	"testing"

	"github.com/contiv/libOpenflow/protocol"
	"pgregory.net/rapid"
	"verifharness/ev"
	"verifharness/gen"
	"verifharness/spec"
)

// C08 — packet-header decoders are total (DESIGN.md section 10, C08).
// One target per decoder entry point; inputs are well-formed packets written
// from the RFC layouts with their length-like fields located as slots, then
// mutated by the same hostile layers as C07 (boundary values in slots,
// truncation, byte windows, amplification), plus raw bytes.

type pktTarget struct {
	name string
	gen  func(rt *rapid.T, g *gen.G) ([]byte, []spec.Slot)
	dec  func(b []byte) error
}

func sl(off, w int, class, path string) spec.Slot {
	return spec.Slot{Off: off, Width: w, Class: class, Path: "pkt/" + path}
}

func ipv4Bytes(g *gen.G, l string) []byte { return g.Bytes(l, 4) }

// LLDP TLV header: type 7 bits, length 9 bits.
func lldpTLV(ty int, body []byte) []byte {
	h := uint16(ty)<<9 | uint16(len(body))&0x1ff
	return append([]byte{byte(h >> 8), byte(h)}, body...)
}

func dhcpOptions(rt *rapid.T, g *gen.G, slots *[]spec.Slot, base int) []byte {
	var out []byte
	n := g.ListLen("dhcp_nopts", 12)
	for i := 0; i < n; i++ {
		tag := byte(g.Int("dhcp_tag", 0, 255))
		if g.Chance("dhcp_overload_option", 1, 6) {
			// option 52 (overload): length 1, value 1 = file, 2 = sname, 3 = both
			*slots = append(*slots, sl(base+len(out), 1, "type", "dhcp.opt.tag"), sl(base+len(out)+1, 1, "len", "dhcp.opt.len"))
			out = append(out, 52, 1, byte(g.Int("dhcp_overload", 0, 4)))
			continue
		}
		if tag == 0 {
			out = append(out, 0) // PAD has no length
			continue
		}
		if tag == 255 {
			tag = 53
		}
		dl := g.Int("dhcp_optlen", 0, 20)
		*slots = append(*slots, sl(base+len(out), 1, "type", "dhcp.opt.tag"), sl(base+len(out)+1, 1, "len", "dhcp.opt.len"))
		out = append(out, tag, byte(dl))
		out = append(out, g.Bytes("dhcp_optdata", dl)...)
	}
	if g.Bool("dhcp_end") {
		out = append(out, 255)
	}
	return out
}

func igmpRecord(g *gen.G, slots *[]spec.Slot, base int) []byte {
	ns := g.ListLen("igmp_nsrc", 8)
	aux := g.Int("igmp_auxlen", 0, 3)
	b := []byte{byte(g.Int("igmp_rtype", 1, 6)), byte(aux), byte(ns >> 8), byte(ns)}
	*slots = append(*slots, sl(base+1, 1, "len", "igmp.record.auxlen"), sl(base+2, 2, "len", "igmp.record.nsources"))
	b = append(b, g.Bytes("igmp_group", 4)...)
	b = append(b, g.Bytes("igmp_srcs", 4*ns)...)
	b = append(b, g.Bytes("igmp_aux", 4*aux)...)
	return b
}

var pktTargets = []pktTarget{
	{"Ethernet", func(rt *rapid.T, g *gen.G) ([]byte, []spec.Slot) {
		p := g.Ethernet(g.Int("maxlen", 64, 1600))
		return p.Wire, pktSlots(p.Wire, 0)
	}, func(b []byte) error { return protocol.NewEthernet().UnmarshalBinary(b) }},
	{"Ethernet(new)", func(rt *rapid.T, g *gen.G) ([]byte, []spec.Slot) {
		p := g.Ethernet(g.Int("maxlen", 64, 9216))
		return p.Wire, pktSlots(p.Wire, 0)
	}, func(b []byte) error { return new(protocol.Ethernet).UnmarshalBinary(b) }},
	{"VLAN", func(rt *rapid.T, g *gen.G) ([]byte, []spec.Slot) {
		return g.Bytes("vlan", 4), []spec.Slot{sl(0, 2, "tci", "vlan.tci"), sl(2, 2, "type", "vlan.ethertype")}
	}, func(b []byte) error { return protocol.NewVLAN().UnmarshalBinary(b) }},
	{"ARP", func(rt *rapid.T, g *gen.G) ([]byte, []spec.Slot) {
		_, w := g.ARPPacket()
		return w, []spec.Slot{sl(4, 1, "len", "arp.hlen"), sl(5, 1, "len", "arp.plen"), sl(0, 2, "type", "arp.htype")}
	}, func(b []byte) error { return new(protocol.ARP).UnmarshalBinary(b) }},
	{"IPv4", func(rt *rapid.T, g *gen.G) ([]byte, []spec.Slot) {
		_, w, _ := g.IPv4Packet(g.Int("maxdata", 0, 1500))
		return w, ipv4Slots(w, 0, 0)
	}, func(b []byte) error { return protocol.NewIPv4().UnmarshalBinary(b) }},
	{"IPv6", func(rt *rapid.T, g *gen.G) ([]byte, []spec.Slot) {
		_, w, _ := g.IPv6Packet(g.Int("maxdata", 0, 1500))
		return w, ipv6Slots(w, 0, 0)
	}, func(b []byte) error { return new(protocol.IPv6).UnmarshalBinary(b) }},
	{"HopByHopHeader", func(rt *rapid.T, g *gen.G) ([]byte, []spec.Slot) {
		slots := []spec.Slot{sl(0, 1, "type", "ipv6.ext.next_header"), sl(1, 1, "len", "ipv6.ext.hdr_ext_len")}
		b := []byte{byte(g.U8("nh")), 0}
		for i, n := 0, g.ListLen("nopts", 6); i < n; i++ {
			dl := g.Int("optlen", 0, 12)
			slots = append(slots, sl(len(b), 1, "type", "ipv6.opt.type"), sl(len(b)+1, 1, "len", "ipv6.opt.len"))
			b = append(b, byte(g.Int("opttype", 1, 255)), byte(dl))
			b = append(b, g.Bytes("optdata", dl)...)
		}
		// pad to 8 with a PadN option (type 1)
		for len(b)%8 != 0 {
			k := 8 - len(b)%8
			if k == 1 {
				b = append(b, 1, 4, 0, 0, 0, 0) // PadN(4) then continue
				continue
			}
			b = append(b, 1, byte(k-2))
			b = append(b, make([]byte, k-2)...)
		}
		b[1] = byte(len(b)/8 - 1)
		return append(b, g.Bytes("tail", g.Int("taillen", 0, 24))...), slots
	}, func(b []byte) error { return protocol.NewHopByHopHeader().UnmarshalBinary(b) }},
	{"RoutingHeader", func(rt *rapid.T, g *gen.G) ([]byte, []spec.Slot) {
		hel := g.Int("hel", 0, 6)
		b := append([]byte{byte(g.U8("nh")), byte(hel), byte(g.U8("rtype")), byte(g.U8("segleft"))}, g.Bytes("rdata", 8*hel+4)...)
		return append(b, g.Bytes("tail", g.Int("taillen", 0, 24))...), []spec.Slot{sl(0, 1, "type", "ipv6.ext.next_header"), sl(1, 1, "len", "ipv6.ext.hdr_ext_len"), sl(3, 1, "len", "ipv6.routing.segments_left")}
	}, func(b []byte) error { return protocol.NewRoutingHeader().UnmarshalBinary(b) }},
	{"FragmentHeader", func(rt *rapid.T, g *gen.G) ([]byte, []spec.Slot) {
		return g.Bytes("frag", 8), []spec.Slot{sl(0, 1, "type", "ipv6.ext.next_header"), sl(2, 2, "frag", "ipv6.frag.offset_m")}
	}, func(b []byte) error { return protocol.NewFragmentHeader().UnmarshalBinary(b) }},
	{"Option", func(rt *rapid.T, g *gen.G) ([]byte, []spec.Slot) {
		dl := g.Int("optlen", 0, 40)
		return append([]byte{byte(g.U8("type")), byte(dl)}, g.Bytes("data", dl+g.Int("tail", 0, 4))...), []spec.Slot{sl(0, 1, "type", "ipv6.opt.type"), sl(1, 1, "len", "ipv6.opt.len")}
	}, func(b []byte) error { return new(protocol.Option).UnmarshalBinary(b) }},
	{"ICMP", func(rt *rapid.T, g *gen.G) ([]byte, []spec.Slot) {
		return g.Bytes("icmp", 4+g.Int("dl", 0, 64)), []spec.Slot{sl(0, 1, "type", "icmp.type")}
	}, func(b []byte) error { return protocol.NewICMP().UnmarshalBinary(b) }},
	{"UDP", func(rt *rapid.T, g *gen.G) ([]byte, []spec.Slot) {
		dl := g.Int("dl", 0, 64)
		b := g.Bytes("udp", 8+dl)
		binary.BigEndian.PutUint16(b[4:], uint16(8+dl))
		return b, []spec.Slot{sl(4, 2, "len", "udp.length")}
	}, func(b []byte) error { return protocol.NewUDP().UnmarshalBinary(b) }},
	{"TCP", func(rt *rapid.T, g *gen.G) ([]byte, []spec.Slot) {
		ow := g.Int("optwords", 0, 10)
		b := g.Bytes("tcp", 20+4*ow+g.Int("dl", 0, 64))
		b[12] = byte(5+ow)<<4 | b[12]&0x0f
		return b, []spec.Slot{sl(12, 1, "len", "tcp.data_offset")}
	}, func(b []byte) error { return protocol.NewTCP().UnmarshalBinary(b) }},
	{"IGMPv1or2", func(rt *rapid.T, g *gen.G) ([]byte, []spec.Slot) {
		return g.Bytes("igmp", 8+g.Int("tail", 0, 4)), []spec.Slot{sl(0, 1, "type", "igmp.type")}
	}, func(b []byte) error { return new(protocol.IGMPv1or2).UnmarshalBinary(b) }},
	{"IGMPv3Query", func(rt *rapid.T, g *gen.G) ([]byte, []spec.Slot) {
		ns := g.ListLen("nsrc", 12)
		b := g.Bytes("q", 12+4*ns)
		b[0] = 0x11
		binary.BigEndian.PutUint16(b[10:], uint16(ns))
		return b, []spec.Slot{sl(10, 2, "len", "igmp.query.nsources"), sl(8, 1, "flags", "igmp.query.s_qrv")}
	}, func(b []byte) error { return new(protocol.IGMPv3Query).UnmarshalBinary(b) }},
	{"IGMPv3GroupRecord", func(rt *rapid.T, g *gen.G) ([]byte, []spec.Slot) {
		var slots []spec.Slot
		return igmpRecord(g, &slots, 0), slots
	}, func(b []byte) error { return new(protocol.IGMPv3GroupRecord).UnmarshalBinary(b) }},
	{"IGMPv3MembershipReport", func(rt *rapid.T, g *gen.G) ([]byte, []spec.Slot) {
		ng := g.ListLen("ngroups", 8)
		b := []byte{0x22, 0, byte(g.U8("c1")), byte(g.U8("c2")), 0, 0, byte(ng >> 8), byte(ng)}
		slots := []spec.Slot{sl(6, 2, "len", "igmp.report.ngroups")}
		for i := 0; i < ng; i++ {
			b = append(b, igmpRecord(g, &slots, len(b))...)
		}
		return b, slots
	}, func(b []byte) error { return new(protocol.IGMPv3MembershipReport).UnmarshalBinary(b) }},
	{"DHCP.Write", func(rt *rapid.T, g *gen.G) ([]byte, []spec.Slot) {
		b := g.Bytes("bootp", 236)
		b[0], b[1], b[2] = byte(g.Int("op", 1, 2)), 1, 6
		slots := []spec.Slot{sl(2, 1, "len", "dhcp.hlen"), sl(236, 4, "magic", "dhcp.magic")}
		// RFC 2131 option overload: the sname (44..107) and file (108..235) fields may themselves carry options;
		// fill them with TLVs in a third of the packets (an overload option inside an overloaded field included)
		if g.Chance("dhcp_fields_carry_options", 1, 3) {
			for _, fld := range [][2]int{{44, 64}, {108, 128}} {
				var fs []spec.Slot
				o := dhcpOptions(rt, g, &fs, fld[0])
				if len(o) > fld[1] {
					o = o[:fld[1]]
				}
				copy(b[fld[0]:fld[0]+fld[1]], make([]byte, fld[1]))
				copy(b[fld[0]:], o)
				for _, s := range fs {
					if s.Off+s.Width <= fld[0]+fld[1] {
						slots = append(slots, s)
					}
				}
			}
		}
		b = append(b, 0x63, 0x82, 0x53, 0x63)
		return append(b, dhcpOptions(rt, g, &slots, 240)...), slots
	}, func(b []byte) error { _, err := new(protocol.DHCP).Write(b); return err }},
	{"DHCPParseOptions", func(rt *rapid.T, g *gen.G) ([]byte, []spec.Slot) {
		var slots []spec.Slot
		return dhcpOptions(rt, g, &slots, 0), slots
	}, func(b []byte) error { _, err := protocol.DHCPParseOptions(b); return err }},
	{"LLDP.Write", func(rt *rapid.T, g *gen.G) ([]byte, []spec.Slot) {
		ch := lldpTLV(1, append([]byte{byte(g.Int("chsub", 1, 7))}, g.Bytes("chid", g.Int("chlen", 1, 20))...))
		po := lldpTLV(2, append([]byte{byte(g.Int("posub", 1, 7))}, g.Bytes("poid", g.Int("polen", 1, 20))...))
		tt := lldpTLV(3, g.Bytes("ttl", 2))
		// optional TLVs behind the three mandatory ones (port description, system name, capabilities, management
		// address, organizationally specific with its 3-byte OUI + subtype), closed by the end-of-LLDPDU TLV:
		// every LLDP frame on a real link has them, whatever a decoder makes of them
		var opt []byte
		var optAt []int
		for i, k := 0, g.Int("lldp_optional_tlvs", 0, 4); i < k; i++ {
			ty := []int{4, 5, 6, 7, 8, 127, 127, 127}[g.Pick("lldp_opt_type", 8)]
			n := g.Int("lldp_opt_len", 0, 24)
			if ty == 127 && g.Bool("lldp_org_short") {
				n = g.Int("lldp_org_len", 0, 6)
			}
			optAt = append(optAt, len(opt))
			opt = append(opt, lldpTLV(ty, g.Bytes("lldp_opt_body", n))...)
		}
		if len(optAt) > 0 || g.Bool("lldp_end_tlv") {
			opt = append(opt, 0, 0)
		}
		tt = append(tt, opt...)
		b := append(append(append([]byte{}, ch...), po...), tt...)
		b = append(b, 0, 0)
		slots := []spec.Slot{sl(0, 2, "len", "lldp.chassis.hdr"), sl(len(ch), 2, "len", "lldp.port.hdr"), sl(len(ch)+len(po), 2, "len", "lldp.ttl.hdr")}
		for _, at := range optAt {
			slots = append(slots, sl(len(ch)+len(po)+4+at, 2, "len", "lldp.optional.hdr"))
		}
		return b, slots
	}, func(b []byte) error { _, err := new(protocol.LLDP).Write(b); return err }},
	{"ChassisTLV.Write", func(rt *rapid.T, g *gen.G) ([]byte, []spec.Slot) {
		return lldpTLV(1, append([]byte{byte(g.Int("chsub", 1, 7))}, g.Bytes("chid", g.Int("chlen", 0, 40))...)), []spec.Slot{sl(0, 2, "len", "lldp.chassis.hdr")}
	}, func(b []byte) error { _, err := new(protocol.ChassisTLV).Write(b); return err }},
	{"PortTLV.Write", func(rt *rapid.T, g *gen.G) ([]byte, []spec.Slot) {
		return lldpTLV(2, append([]byte{byte(g.Int("posub", 1, 7))}, g.Bytes("poid", g.Int("polen", 0, 40))...)), []spec.Slot{sl(0, 2, "len", "lldp.port.hdr")}
	}, func(b []byte) error { _, err := new(protocol.PortTLV).Write(b); return err }},
	{"TTLTLV.Write", func(rt *rapid.T, g *gen.G) ([]byte, []spec.Slot) {
		return lldpTLV(3, g.Bytes("ttl", 2+g.Int("extra", 0, 2))), []spec.Slot{sl(0, 2, "len", "lldp.ttl.hdr")}
	}, func(b []byte) error { _, err := new(protocol.TTLTLV).Write(b); return err }},
}

func decodeTotal(c *ev.Collector, t ev.Fataler, tg pktTarget, in []byte, muts []string, fatal bool) string {
	input := append([]byte{}, in...)
	var err error
	o := guarded(func() { err = tg.dec(in) })
	sym, detail := judgeTotality(o, len(input))
	if sym != "" {
		rep := map[string]any{"decoder": tg.name, "hex": hex.EncodeToString(input), "mutations": muts}
		sig := "C08|" + tg.name + "|" + sym
		detail = fmt.Sprintf("%s :: len=%d mutations=%v :: %s", detail, len(input), muts, clipHex(input, 160))
		if (o.hung || o.heap) && fatal {
			fatalTotality(c, sig, detail, input, rep)
		}
		c.Report(t, sig, detail, rep)
		return strings.SplitN(sym, "|", 2)[0]
	}
	if err != nil {
		return "error"
	}
	return "value"
}

func c08Rule(c *ev.Collector) {
	c.Rule("one target per decoder entry point (Ethernet x2 receivers, VLAN, ARP, IPv4, IPv6, HopByHopHeader, RoutingHeader, FragmentHeader, Option, ICMP, UDP, TCP, IGMPv1or2, IGMPv3Query, " +
		"IGMPv3GroupRecord, IGMPv3MembershipReport, DHCP.Write, DHCPParseOptions, LLDP.Write, ChassisTLV/PortTLV/TTLTLV.Write); inputs <= 9216 bytes: well-formed packets written from the RFC layouts " +
		"whose length-like fields (IHL, total length, header-extension length, option length, hardware/protocol length, data offset, source/group counts, aux length, DHCP hlen/option length, LLDP TLV length) " +
		"are located as slots and overridden from the boundary set (0,1,2,cur+-1,127,128,253,254,255,remaining,remaining/4,remaining/8,... ; 16-bit: 0x3fff,0x4000,0x7fff,0x8000,0xfff8..0xffff), adjacent pairs, truncation at any offset, " +
		"byte windows, random bytes, amplification of an element up to jumbo size, and raw random strings. TestC08Sweep enumerates, for sample packets of every decoder, every truncation, every single-byte 0x00/0xff overwrite, " +
		"all 256 values of every one-byte slot and boundary + k*64 / k*16384 wrap-around values of every two-byte slot. Oracle = C07's totality monitor. " +
		"Non-trivial: input is not the untouched sample; distinct by hash of (decoder, input).")
	c.Assume("allocation volume is a proxy for work proportional to the input; hang bound 20 s")
}

func TestC08(t *testing.T) {
	c := ev.For("C08")
	defer c.Done()
	c08Rule(c)
	if shard0() {
		regressC08(t, c)
	}
	checkRapid(t, c, func(rt *rapid.T) {
		tg := pktTargets[gen.Pick(rt, "decoder", len(pktTargets))]
		g := gen.New(rt, 2000)
		var b []byte
		var muts []string
		switch gen.Pick(rt, "mode", 10) {
		case 0:
			n := rapid.IntRange(0, 80).Draw(rt, "rawlen")
			b = rapid.SliceOfN(rapid.Byte(), n, n).Draw(rt, "raw")
			muts = []string{"raw"}
		case 1:
			b, _ = tg.gen(rt, g)
		default:
			var slots []spec.Slot
			b, slots = tg.gen(rt, g)
			b = mutatePacket(rt, b, slots, &muts)
		}
		if len(b) > 9216 {
			b = b[:9216]
		}
		c.Eval()
		cls := decodeTotal(c, rt, tg, b, muts, true)
		c.Label("decoder=" + tg.name)
		c.Label("outcome=" + cls)
		for _, m := range muts {
			if i := strings.Index(m, "(pkt/"); i >= 0 {
				c.Label("mut_field=" + strings.SplitN(m[i+5:], ",", 2)[0])
			}
		}
		if len(muts) > 0 {
			c.NonTrivial(ev.Hash64([]byte(tg.name), b))
		}
		if c.WantSample() {
			c.Sample(map[string]any{"decoder": tg.name, "mutations": muts, "len": len(b), "hex": clipHex(b, 80), "outcome": cls})
		}
	})
}

// mutatePacket: the hostile layers of mutateFrame without the OpenFlow header fix-ups.
func mutatePacket(rt *rapid.T, b []byte, slots []spec.Slot, muts *[]string) []byte {
	save := []byte(nil)
	if len(b) >= 4 {
		save = append(save, b[2:4]...)
	}
	out := mutateFrame(rt, b, slots, muts)
	// mutateFrame may have written an OpenFlow header length into bytes 2..3 ("fix_header_len"); that is
	// just one more 16-bit overwrite for a packet, keep it.
	_ = save
	return out
}

func TestC08Sweep(t *testing.T) {
	c := ev.For("C08")
	defer c.Done()
	c08Rule(c)
	shard, nsh := envInt("VERIF_SHARD", 0), envInt("VERIF_NSHARDS", 1)
	nSamples := ev.Scale(3, 20)
	for ti, tg := range pktTargets {
		if ti%nsh != shard {
			continue
		}
		tg := tg
		var slotsOut []spec.Slot
		sample := rapid.Custom(func(rt *rapid.T) []byte {
			b, s := tg.gen(rt, gen.New(rt, 600))
			slotsOut = s
			return b
		})
		for si := 1; si <= nSamples; si++ {
			f := sample.Example(si)
			slots := slotsOut
			if len(f) > 2000 {
				continue
			}
			run := func(in []byte, what string) {
				c.Eval()
				c.NonTrivial(ev.Hash64([]byte(tg.name), in))
				decodeTotal(c, nil, tg, in, []string{what}, true)
			}
			for cut := 0; cut < len(f); cut++ {
				run(append([]byte{}, f[:cut]...), fmt.Sprintf("truncate@%d", cut))
			}
			for off := 0; off < len(f) && off < 400; off++ {
				for _, v := range []byte{0, 0xff} {
					if f[off] != v {
						in := append([]byte{}, f...)
						in[off] = v
						run(in, fmt.Sprintf("byte@%d=%#x", off, v))
					}
				}
			}
			for _, s := range slots {
				if s.Off+s.Width > len(f) {
					continue
				}
				var vals []uint64
				if s.Width == 1 {
					for v := 0; v < 256; v++ {
						vals = append(vals, uint64(v))
					}
				} else if s.Width == 2 {
					vals = []uint64{0, 1, 2, 3, 4, 7, 8, 0x7fff, 0x8000, 0xfffe, 0xffff}
					for k := 1; k < 4; k++ {
						vals = append(vals, uint64(k*16384), uint64(k*16384-1), uint64(k*16384+1))
					}
					for k := 1; k <= 16; k++ {
						vals = append(vals, uint64(k*64), uint64(k*4096-1), uint64(k*4096))
					}
				}
				for _, v := range vals {
					in := append([]byte{}, f...)
					putN(in, s.Off, s.Width, v)
					run(in, fmt.Sprintf("slot %s=%#x", s.Path, v))
				}
			}
		}
		c.Label("swept_decoder=" + tg.name)
	}
	c.Exhaustive("per sample packet: all truncations, all single-byte 0x00/0xff overwrites (first 400 bytes), all 256 values of each 1-byte slot, boundary and wrap-around values of each 2-byte slot")
	c.FailIfViolations(t)
}

func FuzzC08(f *testing.F) {
	for ti, tg := range pktTargets {
		tg := tg
		s := rapid.Custom(func(rt *rapid.T) []byte { b, _ := tg.gen(rt, gen.New(rt, 300)); return b })
		for i := 1; i <= 2; i++ {
			if b := s.Example(i); len(b) < 1200 {
				f.Add(uint8(ti), b)
			}
		}
	}
	c := ev.For("C08")
	f.Fuzz(func(t *testing.T, which uint8, in []byte) {
		if len(in) > 9216 {
			in = in[:9216]
		}
		decodeTotal(c, t, pktTargets[int(which)%len(pktTargets)], in, nil, false)
	})
}
