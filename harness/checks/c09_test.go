package checks

import (
	"bytes"
	"encoding/binary"
	"fmt"
	"net"
	"reflect"
	"testing"

	"github.com/contiv/libOpenflow/protocol"
	"github.com/contiv/libOpenflow/util"
	"pgregory.net/rapid"
	"verifharness/ev"
	"verifharness/gen"
	"verifharness/obs"
)

// C09 — packet headers: round trip, bit lanes, payload demultiplexing
// (DESIGN.md section 10, C09).
//
//	value-first  v (built through the API) -> enc(v) must equal the bytes the RFC layout gives for the same
//	             arguments (independent packet model), Len()==len(enc), dec(enc(v)) observable-equal to v
//	             (dynamic payload types included), enc(dec(enc(v)))==enc(v)
//	bytes-first  RFC bytes -> dec -> observable-equal to the denoted value -> enc == the bytes
//	sweeps       every value of every packed 8/16-bit group, exhaustively

func freshLike(v util.Message) util.Message {
	switch v.(type) {
	case *protocol.Ethernet:
		return new(protocol.Ethernet)
	case *protocol.IPv4:
		return protocol.NewIPv4()
	case *protocol.IPv6:
		return new(protocol.IPv6)
	case *protocol.ARP:
		return new(protocol.ARP)
	case *protocol.UDP:
		return protocol.NewUDP()
	case *protocol.ICMP:
		return protocol.NewICMP()
	case *protocol.TCP:
		return protocol.NewTCP()
	case *protocol.VLAN:
		return protocol.NewVLAN()
	}
	return reflect.New(reflect.TypeOf(v).Elem()).Interface().(util.Message)
}

// headerCycle judges one header value against its wire form.
func headerCycle(c *ev.Collector, t ev.Fataler, kind string, v util.Message, wire []byte, desc string) bool {
	rep := map[string]any{"kind": kind, "wire": hx(wire), "desc": desc}
	l0, lf := safeLen(v)
	b, fr, msg := safeMarshal(v)
	if fr != "" {
		c.Report(t, "C09|"+kind+"|encode-panic|"+fr, msg+" :: "+desc+" :: "+hx(wire), rep)
		return false
	}
	if lf != "" || l0 != len(b) {
		c.Report(t, "C09|"+kind+"|Len", fmt.Sprintf("Len()=%d (panic %q), %d bytes encoded :: %s", l0, lf, len(b), desc), rep)
		return false
	}
	if !bytes.Equal(b, wire) {
		off := 0
		for off < len(b) && off < len(wire) && b[off] == wire[off] {
			off++
		}
		c.Report(t, "C09|"+kind+"|encode-layout", fmt.Sprintf("%s: library bytes differ from the RFC layout at offset %d: got %s want %s", desc, off, hx(b), hx(wire)), rep)
		return false
	}
	d := freshLike(v)
	var err error
	if pf, pm := safeCall(func() { err = d.UnmarshalBinary(append([]byte{}, wire...)) }); pf != "" {
		c.Report(t, "C09|"+kind+"|decode-panic|"+pf, pm+" :: "+hx(wire), rep)
		return false
	}
	if err != nil {
		c.Report(t, "C09|"+kind+"|decode-error", err.Error()+" :: "+desc+" :: "+hx(wire), rep)
		return false
	}
	if q, ok := v.(*protocol.IGMPv3Query); ok && q.GroupAddress == nil {
		// a general query built without a group denotes group 0.0.0.0, which is what a decoder returns
		q.GroupAddress = net.IP{0, 0, 0, 0}
		defer func() { q.GroupAddress = nil }()
	}
	want, got := obsDumpMsg(v), obsDumpMsg(d)
	if want != got {
		c.Report(t, "C09|"+kind+"|value-mismatch|"+diffField(want, got), fmt.Sprintf("%s: %s :: %s", desc, obs.FirstDiff(want, got), hx(wire)), rep)
		return false
	}
	if l, fr := safeLen(d); fr != "" || l != len(wire) {
		c.Report(t, "C09|"+kind+"|Len-after-decode", fmt.Sprintf("decoded value reports %d (panic %q), %d bytes consumed", l, fr, len(wire)), rep)
		return false
	}
	b2, fr, msg := safeMarshal(d)
	if fr != "" || !bytes.Equal(b2, wire) {
		c.Report(t, "C09|"+kind+"|reencode-differs", fmt.Sprintf("%s %s: re-encoding %s, bytes %s", fr, msg, hx(b2), hx(wire)), rep)
		return false
	}
	return true
}

func c09Rule(c *ev.Collector) {
	c.Rule("value-first: every header kind (Ethernet with/without 802.1Q tag, ARP, IPv4 with options, IPv6 with any subset/order of hop-by-hop, routing and fragment headers, ICMP, UDP, TCP, IGMPv1/v2, IGMPv3 query / group record / report, " +
		"IPv6 option, DHCP incl. options, LLDP TLVs) built through constructors/exported fields with all fields in range and mutually consistent; oracle: library bytes == bytes written independently from the RFC layouts " +
		"(so a packed field cannot disturb a neighbour unnoticed), Len()==bytes, decode gives the same observable value incl. the dynamic type of the payload chain (ethertype after the tag / IPv4 protocol / IPv6 next-header chain), " +
		"re-encode == bytes. bytes-first: the model's frames incl. priority tags (VID 0) decoded and re-encoded. Sweeps (exhaustive): VLAN TCI 2^16, IPv4 IHL 5..15 x version nibble, DSCP/ECN 2^8, flags/fragment offset 2^16, " +
		"IPv6 class 2^8 x boundary flow labels, flow label 2^20 x boundary classes (thorough; 2^12 strided in quick), TCP data-offset x flags 2^10, fragment offset/M 2^14, IGMPv3 S/QRV 2^4. " +
		"Non-trivial: >=1 sub-byte field non-zero and a typed payload, or a list with >= 2 entries; distinct by hash of the bytes; sweeps count every tuple.")
	c.Assume("the packet model (harness/gen/packet.go, proto2.go) is my transcription of 802.1Q, RFC 826, 791, 8200, 792, 768, 793, 2236, 3376, 2131/2132, 802.1AB",
		"an Ethernet value with VLANID.VID == 0 is the library's representation of an untagged frame (value-first direction); the bytes-first direction still sees a dropped priority tag")
}

func TestC09(t *testing.T) {
	c := ev.For("C09")
	defer c.Done()
	c09Rule(c)
	checkRapid(t, c, func(rt *rapid.T) {
		c.Eval()
		g := gen.New(rt, 2000)
		switch gen.Pick(rt, "what", 8) {
		case 0, 1, 2:
			p := g.Ethernet(g.Int("maxlen", 64, 1800))
			addLabels(c, g.Labels)
			c.Label("kind=Ethernet/" + p.L3 + "/" + p.L4)
			if _, isARP := p.Eth.Data.(*protocol.ARP); isARP && rapid.IntRange(0, 2).Draw(rt, "reverse_arp") == 0 {
				// a reverse-ARP frame (RFC 903): same packet layout as ARP, ethertype 0x8035. The ethertype is the
				// caller's field; the payload's Go type does not decide it. This library decodes 0x8035 frames to an
				// opaque payload, so only the encoding direction is judged for this value.
				p.Eth.Ethertype = 0x8035
				w := append([]byte{}, p.Wire...)
				at := 12
				if p.Eth.VLANID.VID != 0 {
					at = 16
				}
				w[at], w[at+1] = 0x80, 0x35
				c.Label("reverse_arp_ethertype_with_arp_payload")
				l0, lf := safeLen(p.Eth)
				b, fr, msg := safeMarshal(p.Eth)
				if fr != "" || lf != "" || l0 != len(b) || !bytes.Equal(b, w) {
					c.Report(rt, "C09|Ethernet|encode-layout", fmt.Sprintf("reverse-ARP frame (ethertype 0x8035 with an ARP payload): Len %d (panic %q), encoding %s %s %s, RFC layout %s", l0, lf, fr, msg, hx(b), hx(w)), map[string]any{"wire": hx(w)})
				}
				return
			}
			if headerCycle(c, rt, "Ethernet", p.Eth, p.Wire, p.Desc) {
				if p.Eth.VLANID.VID != 0 || p.L3 != "other" {
					c.NonTrivial(ev.Hash64(p.Wire))
				}
			}
			if c.WantSample() {
				c.Sample(map[string]any{"frame": p.Desc, "hex": clipHex(p.Wire, 96)})
			}
		case 3:
			c09PriorityTag(c, rt, g)
		case 4:
			if rapid.Bool().Draw(rt, "dhcp_short_read_first") {
				// history: a caller reads only the fixed part of one message into a 240-byte slice, then encodes another
				other := g.DHCP()
				other.Val.Read(make([]byte, 240))
				c.Label("dhcp_after_short_read")
			}
			m := g.DHCP()
			c.Label("kind=DHCP")
			c09DHCP(c, rt, m)
		case 5:
			l := g.LLDP()
			c.Label("kind=LLDP")
			c09LLDP(c, rt, l)
		default:
			p := g.ProtoValue()
			addLabels(c, g.Labels)
			c.Label("kind=" + p.Kind)
			if headerCycle(c, rt, p.Kind, p.Val, p.Wire, p.Kind) {
				c.NonTrivial(ev.Hash64([]byte(p.Kind), p.Wire))
			}
			if c.WantSample() {
				c.Sample(map[string]any{"kind": p.Kind, "hex": clipHex(p.Wire, 96)})
			}
		}
	})
}

// c09PriorityTag: bytes-first, a frame with an 802.1Q tag whose VID is 0
// (priority tag): decode, check PCP/DEI/demux, re-encode.
func c09PriorityTag(c *ev.Collector, rt *rapid.T, g *gen.G) {
	p := g.Ethernet(600)
	if p.Eth.VLANID.VID == 0 {
		// insert a priority tag into the untagged frame
		pcp, dei := g.U8("pcp")&7, g.U8("dei")&1
		tci := uint16(pcp)<<13 | uint16(dei)<<12
		w := append(append(append([]byte{}, p.Wire[:12]...), 0x81, 0x00, byte(tci>>8), byte(tci)), p.Wire[12:]...)
		c.Label("kind=Ethernet(priority tag, VID 0)")
		e := new(protocol.Ethernet)
		var err error
		if pf, pm := safeCall(func() { err = e.UnmarshalBinary(append([]byte{}, w...)) }); pf != "" || err != nil {
			c.Report(rt, "C09|Ethernet|priority-tag|decode-failed", fmt.Sprintf("%s %s %v :: %s", pf, pm, err, hx(w)), hx(w))
			return
		}
		c.NonTrivial(ev.Hash64(w))
		if e.VLANID.PCP != pcp || e.VLANID.DEI != dei || e.VLANID.VID != 0 || e.Ethertype != p.Eth.Ethertype || reflect.TypeOf(e.Data) != reflect.TypeOf(p.Eth.Data) {
			c.Report(rt, "C09|Ethernet|priority-tag|value-mismatch", fmt.Sprintf("pcp %d dei %d ethertype %#x payload %T, want %d %d %#x %T :: %s", e.VLANID.PCP, e.VLANID.DEI, e.Ethertype, e.Data, pcp, dei, p.Eth.Ethertype, p.Eth.Data, hx(w)), hx(w))
			return
		}
		b, fr, msg := safeMarshal(e)
		if fr != "" || !bytes.Equal(b, w) {
			c.Report(rt, "C09|Ethernet|reencode|vlan_vid0_tag_dropped", fmt.Sprintf("%s %s: a frame with priority tag (pcp %d dei %d vid 0) re-encodes to %s, was %s", fr, msg, pcp, dei, hx(b), hx(w)), hx(w))
		}
		return
	}
	// tagged frame, bytes-first
	e := new(protocol.Ethernet)
	if err := e.UnmarshalBinary(append([]byte{}, p.Wire...)); err != nil {
		c.Report(rt, "C09|Ethernet|decode-error", err.Error()+" :: "+hx(p.Wire), hx(p.Wire))
		return
	}
	c.Label("kind=Ethernet(bytes-first)")
	b, fr, msg := safeMarshal(e)
	if fr != "" || !bytes.Equal(b, p.Wire) {
		c.Report(rt, "C09|Ethernet|reencode-differs", fmt.Sprintf("%s %s: %s vs %s", fr, msg, hx(b), hx(p.Wire)), hx(p.Wire))
	}
}

func c09DHCP(c *ev.Collector, rt *rapid.T, m gen.DHCPMsg) {
	rep := map[string]any{"kind": "DHCP", "wire": hx(m.Wire)}
	// Len and Read (= encode)
	l, lf := 0, ""
	lf, _ = safeCall(func() { l = int(m.Val.Len()) })
	buf := make([]byte, len(m.Wire)+64)
	var n int
	var err error
	if pf, pm := safeCall(func() { n, err = m.Val.Read(buf) }); pf != "" {
		c.Report(rt, "C09|DHCP|encode-panic|"+pf, pm, rep)
		return
	}
	if err != nil {
		c.Report(rt, "C09|DHCP|encode-error", err.Error(), rep)
		return
	}
	if !bytes.Equal(buf[:n], m.Wire) {
		c.Report(rt, "C09|DHCP|encode-layout", fmt.Sprintf("Read gave %s, RFC 2131 layout %s", hx(buf[:n]), hx(m.Wire)), rep)
		return
	}
	if lf != "" || l != len(m.Wire) {
		c.Report(rt, "C09|DHCP|Len", fmt.Sprintf("Len()=%d (panic %q), %d bytes encoded (options: %v)", l, lf, len(m.Wire), len(m.Opts)), rep)
		return
	}
	// Write (= decode)
	d := new(protocol.DHCP)
	consumed := 0
	if pf, pm := safeCall(func() { consumed, err = d.Write(append([]byte{}, m.Wire...)) }); pf != "" || err != nil {
		c.Report(rt, "C09|DHCP|decode-failed", fmt.Sprintf("%s %s %v :: %s", pf, pm, err, hx(m.Wire)), rep)
		return
	}
	// the decoder takes the whole options field (filler behind END included): bytes consumed = bytes given,
	// and the decoded value reports the size of what a decoder reads
	if consumed != len(m.Wire) {
		c.Report(rt, "C09|DHCP|bytes-consumed", fmt.Sprintf("Write reports %d bytes consumed of the %d given", consumed, len(m.Wire)), rep)
		return
	}
	dl := 0
	if dfr, _ := safeCall(func() { dl = int(d.Len()) }); dfr != "" || dl != m.Read {
		c.Report(rt, "C09|DHCP|Len-after-decode", fmt.Sprintf("decoded value reports Len()=%d (panic %q), the message up to its END option has %d bytes", dl, dfr, m.Read), rep)
		return
	}
	o := m.Val
	if d.Operation != o.Operation || d.HardwareType != o.HardwareType || d.HardwareLen != o.HardwareLen || d.HardwareOpts != o.HardwareOpts || d.Xid != o.Xid || d.Secs != o.Secs || d.Flags != o.Flags ||
		!d.ClientIP.Equal(o.ClientIP) || !d.YourIP.Equal(o.YourIP) || !d.ServerIP.Equal(o.ServerIP) || !d.GatewayIP.Equal(o.GatewayIP) || !bytes.Equal(d.ClientHWAddr, o.ClientHWAddr) ||
		d.ServerName != o.ServerName || d.File != o.File {
		c.Report(rt, "C09|DHCP|value-mismatch|fixed-part", fmt.Sprintf("decoded %s, built %s", obs.Dump(d, obs.Opts{ExportedOnly: true, Normalise: true, SkipFields: map[string]bool{"DHCP.Options": true}}), obs.Dump(o, obs.Opts{ExportedOnly: true, Normalise: true, SkipFields: map[string]bool{"DHCP.Options": true}})), rep)
		return
	}
	// options: same tags and data in order (an END marker ends the list)
	var got [][2]any
	for _, op := range d.Options {
		if op.OptionType() == 255 {
			break
		}
		got = append(got, [2]any{op.OptionType(), op.Bytes()})
	}
	if len(got) != len(m.Opts) {
		c.Report(rt, "C09|DHCP|value-mismatch|option-count", fmt.Sprintf("%d options decoded, %d encoded :: %s", len(got), len(m.Opts), hx(m.Wire[240:])), rep)
		return
	}
	for i := range got {
		if got[i][0].(byte) != m.Opts[i][0].(byte) || !bytes.Equal(got[i][1].([]byte), m.Opts[i][1].([]byte)) {
			c.Report(rt, "C09|DHCP|value-mismatch|option", fmt.Sprintf("option %d: decoded tag %d data %x, encoded tag %d data %x", i, got[i][0], got[i][1], m.Opts[i][0], m.Opts[i][1]), rep)
			return
		}
	}
	// re-encode the decoded value
	n2 := 0
	buf2 := make([]byte, len(m.Wire)+64)
	// (filler behind the END option is not part of the decoded value: the re-encoding ends with the END)
	if pf, pm := safeCall(func() { n2, err = d.Read(buf2) }); pf != "" || err != nil || !bytes.Equal(buf2[:n2], m.Wire[:m.Read]) {
		c.Report(rt, "C09|DHCP|reencode-differs", fmt.Sprintf("%s %s %v: %s vs %s", pf, pm, err, hx(buf2[:n2]), hx(m.Wire[:m.Read])), rep)
		return
	}
	if len(m.Opts) >= 2 {
		c.NonTrivial(ev.Hash64(m.Wire))
	}
	if c.WantSample() {
		c.Sample(map[string]any{"kind": "DHCP", "options": len(m.Opts), "hex": clipHex(m.Wire[236:], 80)})
	}
}

func c09LLDP(c *ev.Collector, rt *rapid.T, l gen.LLDPMsg) {
	rep := map[string]any{"kind": "LLDP", "wire": hx(l.Wire)}
	// the three TLV kinds, each alone
	type rw interface {
		Read([]byte) (int, error)
		Write([]byte) (int, error)
	}
	cyc := func(name string, v rw, fresh rw, dump func(rw) string) bool {
		buf := make([]byte, 64+len(l.Val.Chassis.Data)+len(l.Val.Port.Data))
		var n int
		var err error
		if pf, pm := safeCall(func() { n, err = v.Read(buf) }); pf != "" || err != nil {
			c.Report(rt, "C09|"+name+"|encode-failed", fmt.Sprintf("%s %s %v", pf, pm, err), rep)
			return false
		}
		enc := append([]byte{}, buf[:n]...)
		var m int
		if pf, pm := safeCall(func() { m, err = fresh.Write(append([]byte{}, enc...)) }); pf != "" || err != nil {
			c.Report(rt, "C09|"+name+"|decode-failed", fmt.Sprintf("%s %s %v :: %s", pf, pm, err, hx(enc)), rep)
			return false
		}
		if m != n {
			c.Report(rt, "C09|"+name+"|consumed", fmt.Sprintf("%d bytes encoded, decoder consumed %d :: %s", n, m, hx(enc)), rep)
			return false
		}
		if dump(v) != dump(fresh) {
			c.Report(rt, "C09|"+name+"|value-mismatch", fmt.Sprintf("%s vs %s :: %s", dump(v), dump(fresh), hx(enc)), rep)
			return false
		}
		return true
	}
	dmp := func(v rw) string { return obs.Dump(v, obs.Opts{ExportedOnly: true, Normalise: true}) }
	if !cyc("ChassisTLV", &l.Val.Chassis, new(protocol.ChassisTLV), dmp) || !cyc("PortTLV", &l.Val.Port, new(protocol.PortTLV), dmp) || !cyc("TTLTLV", &l.Val.TTL, new(protocol.TTLTLV), dmp) {
		return
	}
	// the frame: all three TLVs in sequence
	if !cyc("LLDP", l.Val, new(protocol.LLDP), dmp) {
		return
	}
	c.NonTrivial(ev.Hash64(l.Wire))
	if c.WantSample() {
		c.Sample(map[string]any{"kind": "LLDP", "hex": clipHex(l.Wire, 80)})
	}
}

// ---------------------------------------------------------------------------
// exhaustive sweeps of the packed groups

func TestC09Sweep(t *testing.T) {
	c := ev.For("C09")
	defer c.Done()
	c09Rule(c)
	shard, nsh := envInt("VERIF_SHARD", 0), envInt("VERIF_NSHARDS", 1)
	mine := func(i int) bool { return i%nsh == shard }
	mac1, mac2 := net.HardwareAddr{2, 0, 0, 0, 0, 1}, net.HardwareAddr{2, 0, 0, 0, 0, 2}
	payload := []byte{0xde, 0xad, 0xbe, 0xef, 0x5a}
	fail := func(kind, what string, b, want []byte) {
		c.Report(nil, "C09|"+kind+"|sweep|"+what, fmt.Sprintf("%s: got %s want %s", what, hx(b), hx(want)), what)
	}
	cyc := func(kind, what string, v util.Message, wire []byte) {
		c.Bulk(1)
		b, fr, _ := safeMarshal(v)
		if fr != "" || !bytes.Equal(b, wire) {
			fail(kind, "encode "+what, b, wire)
			return
		}
		d := freshLike(v)
		if err := d.UnmarshalBinary(append([]byte{}, wire...)); err != nil {
			fail(kind, "decode "+what+": "+err.Error(), nil, wire)
			return
		}
		if obsDumpMsg(d) != obsDumpMsg(v) {
			c.Report(nil, "C09|"+kind+"|sweep|value-mismatch", what+": "+obs.FirstDiff(obsDumpMsg(v), obsDumpMsg(d)), what)
			return
		}
		if b2, _, _ := safeMarshal(d); !bytes.Equal(b2, wire) {
			fail(kind, "re-encode "+what, b2, wire)
		}
	}
	if mine(0) {
		// VLAN TCI: all 2^16 (VID 0 = untagged in the value-first direction, judged bytes-first in TestC09)
		for tci := 0; tci < 1<<16; tci++ {
			vid := uint16(tci) & 0xfff
			if vid == 0 {
				continue
			}
			e := protocol.NewEthernet()
			e.HWDst, e.HWSrc = mac1, mac2
			e.VLANID.PCP, e.VLANID.DEI, e.VLANID.VID = uint8(tci>>13), uint8(tci>>12)&1, vid
			e.Ethertype = 0x88b5
			e.Data = util.NewBuffer(append([]byte{}, payload...))
			w := append(append(append([]byte{}, mac1...), mac2...), 0x81, 0x00, byte(tci>>8), byte(tci), 0x88, 0xb5)
			cyc("Ethernet", fmt.Sprintf("tci=%#04x", tci), e, append(w, payload...))
			if c.NViolations() > 0 {
				break
			}
		}
		c.Exhaustive("VLAN TCI: all 61,440 values with VID != 0")
	}
	ip4 := func(vihl, tos byte, ff uint16) (*protocol.IPv4, []byte) {
		ip := protocol.NewIPv4()
		ip.Version, ip.IHL = vihl>>4, vihl&0xf
		ip.DSCP, ip.ECN = tos>>2, tos&3
		ip.Flags, ip.FragmentOffset = ff>>13, ff&0x1fff
		ip.Id, ip.TTL, ip.Protocol, ip.Checksum = 0x1234, 64, 253, 0xabcd
		ip.NWSrc, ip.NWDst = net.IP{10, 0, 0, 1}, net.IP{10, 0, 0, 2}
		opts := make([]byte, 4*(int(ip.IHL)-5))
		for i := range opts {
			opts[i] = byte(0x40 + i)
		}
		ip.Options = *util.NewBuffer(append([]byte{}, opts...))
		ip.Data = util.NewBuffer(append([]byte{}, payload...))
		ip.Length = uint16(20 + len(opts) + len(payload))
		w := []byte{vihl, tos, 0, 0, 0x12, 0x34, byte(ff >> 8), byte(ff), 64, 253, 0xab, 0xcd, 10, 0, 0, 1, 10, 0, 0, 2}
		binary.BigEndian.PutUint16(w[2:], ip.Length)
		return ip, append(append(w, opts...), payload...)
	}
	if mine(1) {
		for ver := 0; ver < 16; ver++ {
			for ihl := 5; ihl < 16; ihl++ {
				ip, w := ip4(byte(ver<<4|ihl), 0x28, 0x4000)
				cyc("IPv4", fmt.Sprintf("version=%d ihl=%d", ver, ihl), ip, w)
			}
		}
		for tos := 0; tos < 256; tos++ {
			ip, w := ip4(0x45, byte(tos), 0)
			cyc("IPv4", fmt.Sprintf("tos=%#02x", tos), ip, w)
		}
		c.Exhaustive("IPv4 version x IHL (16 x 11), DSCP/ECN byte (256)")
	}
	if mine(2) {
		for ff := 0; ff < 1<<16; ff++ {
			ip, w := ip4(0x46, 0xb9, uint16(ff))
			cyc("IPv4", fmt.Sprintf("flags_fragoff=%#04x", ff), ip, w)
			if c.NViolations() > 0 {
				break
			}
		}
		c.Exhaustive("IPv4 flags/fragment offset: all 2^16")
	}
	ip6 := func(tc byte, fl uint32) (*protocol.IPv6, []byte) {
		ip := &protocol.IPv6{Version: 6, TrafficClass: tc, FlowLabel: fl, HopLimit: 9, NextHeader: 253}
		ip.NWSrc, ip.NWDst = make(net.IP, 16), make(net.IP, 16)
		ip.NWSrc[15], ip.NWDst[15] = 1, 2
		ip.Data = util.NewBuffer(append([]byte{}, payload...))
		ip.Length = uint16(len(payload))
		w := make([]byte, 40)
		w[0], w[1], w[2], w[3] = 6<<4|tc>>4, tc<<4|byte(fl>>16), byte(fl>>8), byte(fl)
		binary.BigEndian.PutUint16(w[4:], ip.Length)
		w[6], w[7], w[23], w[39] = 253, 9, 1, 2
		return ip, append(w, payload...)
	}
	if mine(3) {
		for tc := 0; tc < 256; tc++ {
			for _, fl := range []uint32{0, 1, 0xfffff, 0x80000, 0x7ffff, 0xf0000, 0x0ffff, 0xa5a5a} {
				ip, w := ip6(byte(tc), fl)
				cyc("IPv6", fmt.Sprintf("class=%#02x label=%#05x", tc, fl), ip, w)
			}
		}
		step := uint32(257)
		if ev.Thorough() {
			step = 1
		}
		n := 0
		for fl := uint32(0); fl < 1<<20; fl += step {
			for _, tc := range []byte{0, 0xff, 0x0f, 0xf0, 0xa5} {
				ip, w := ip6(tc, fl)
				cyc("IPv6", fmt.Sprintf("class=%#02x label=%#05x", tc, fl), ip, w)
				n++
			}
			if c.NViolations() > 0 {
				break
			}
		}
		if ev.Thorough() {
			c.Exhaustive("IPv6 flow label: all 2^20 x 5 classes; class: all 2^8 x 8 labels")
		} else {
			c.Exhaustive("IPv6 class: all 2^8 x 8 boundary labels (flow label strided by 257 in the quick tier)")
		}
	}
	if mine(4) {
		// TCP data offset x 6 flag bits
		for off := 0; off < 16; off++ {
			for fl := 0; fl < 64; fl++ {
				tcp := protocol.NewTCP()
				tcp.PortSrc, tcp.PortDst, tcp.SeqNum, tcp.AckNum = 1, 2, 3, 4
				tcp.HdrLen, tcp.Code = uint8(off), uint8(fl)
				tcp.WinSize, tcp.Checksum, tcp.UrgFlag = 5, 6, 7
				tcp.Data = append([]byte{}, payload...)
				w := []byte{0, 1, 0, 2, 0, 0, 0, 3, 0, 0, 0, 4, byte(off << 4), byte(fl), 0, 5, 0, 6, 0, 7}
				cyc("TCP", fmt.Sprintf("offset=%d flags=%#02x", off, fl), tcp, append(w, payload...))
			}
		}
		// fragment header: 13-bit offset x M
		for v := 0; v < 1<<14; v++ {
			h := protocol.NewFragmentHeader()
			h.NextHeader, h.Reserved, h.FragmentOffset, h.MoreFragments, h.Identification = 17, 0, uint16(v>>1), v&1 == 1, 0x01020304
			wv := uint16(v>>1)<<3 | uint16(v&1)
			cyc("FragmentHeader", fmt.Sprintf("offset=%d m=%d", v>>1, v&1), h, []byte{17, 0, byte(wv >> 8), byte(wv), 1, 2, 3, 4})
		}
		// IGMPv3 S / QRV
		for v := 0; v < 16; v++ {
			q := protocol.NewIGMPv3Query(net.IP{224, 0, 0, 1}, 10, 20, []net.IP{{1, 2, 3, 4}})
			q.SuppressRouterProcessing, q.RobustnessValue = v&8 != 0, uint8(v&7)
			cyc("IGMPv3Query", fmt.Sprintf("s_qrv=%#x", v), q, []byte{0x11, 10, 0, 0, 224, 0, 0, 1, byte(v), 20, 0, 1, 1, 2, 3, 4})
		}
		c.Exhaustive("TCP data offset x flags (2^10), fragment offset x M (2^14), IGMPv3 S/QRV (2^4)")
	}
	c.FailIfViolations(t)
}
