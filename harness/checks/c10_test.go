package checks

import (
	"bytes"
	"encoding/binary"
	"errors"
	"fmt"
	"io"
	"net"
	"runtime"
	"sort"
	"sync"
	"testing"
	"time"

	of "github.com/contiv/libOpenflow/openflow13"
	"github.com/contiv/libOpenflow/util"
	"pgregory.net/rapid"
	"verifharness/ev"
	"verifharness/gen"
	"verifharness/obs"
)

// C10 — inbound stream (DESIGN.md section 10, C10): scripted in-memory
// connection, de-framer reference model, multiset/subset oracles.

// ---------------------------------------------------------------------------
// scripted connection

type scriptConn struct {
	mu      sync.Mutex
	cond    *sync.Cond
	chunks  [][]byte // what Read hands out, one chunk per call (never more than len(p))
	failErr error    // returned once the chunks are used up (nil: block until Close)
	closed  bool
	delay   func(i int) // called before handing out chunk i (yields / sleeps)
	nread   int
	writes  [][]byte
	wdelay  func(i int)
	openEnd bool      // more chunks may still be appended (outbound tests do not use reads)
	rdl     time.Time // read deadline (zero: none), honoured the way a TCP connection does
	wdl     time.Time // write deadline (zero: none): a write the peer holds up beyond it fails with a timeout
}

// errDeadline is what a read returns once its deadline has passed (a net.Error with Timeout() == true).
type errDeadline struct{}

func (errDeadline) Error() string   { return "i/o timeout" }
func (errDeadline) Timeout() bool   { return true }
func (errDeadline) Temporary() bool { return true }

func (c *scriptConn) setReadDeadline(t time.Time) {
	c.mu.Lock()
	c.rdl = t
	c.mu.Unlock()
	if !t.IsZero() {
		time.AfterFunc(time.Until(t)+time.Millisecond, c.cond.Broadcast)
	}
	c.cond.Broadcast()
}

func newScriptConn(chunks [][]byte, failErr error) *scriptConn {
	c := &scriptConn{chunks: chunks, failErr: failErr}
	c.cond = sync.NewCond(&c.mu)
	return c
}

var errClosed = errors.New("use of closed network connection")

func (c *scriptConn) Read(p []byte) (int, error) {
	c.mu.Lock()
	for {
		if c.closed {
			c.mu.Unlock()
			return 0, errClosed
		}
		if len(c.chunks) > 0 {
			break
		}
		if c.failErr != nil {
			err := c.failErr
			c.mu.Unlock()
			return 0, err
		}
		if !c.rdl.IsZero() && !time.Now().Before(c.rdl) {
			c.mu.Unlock()
			return 0, errDeadline{}
		}
		c.cond.Wait()
	}
	ch := c.chunks[0]
	i := c.nread
	n := copy(p, ch)
	if n < len(ch) {
		c.chunks[0] = ch[n:]
	} else {
		c.chunks = c.chunks[1:]
		c.nread++
	}
	d := c.delay
	c.mu.Unlock()
	if d != nil {
		d(i)
	}
	return n, nil
}

func (c *scriptConn) Write(p []byte) (int, error) {
	c.mu.Lock()
	if c.closed {
		c.mu.Unlock()
		return 0, errClosed
	}
	i := len(c.writes)
	d := c.wdelay
	c.mu.Unlock()
	if d != nil {
		d(i) // a slow peer: the bytes are taken only after the delay
	}
	c.mu.Lock()
	if !c.wdl.IsZero() && time.Now().After(c.wdl) {
		// the peer took longer than the write deadline in force allows: the write fails the way it does on TCP
		c.mu.Unlock()
		return 0, errDeadline{}
	}
	c.writes = append(c.writes, append([]byte{}, p...))
	c.mu.Unlock()
	return len(p), nil
}

func (c *scriptConn) Close() error {
	c.mu.Lock()
	c.closed = true
	c.mu.Unlock()
	c.cond.Broadcast()
	return nil
}
func (c *scriptConn) LocalAddr() net.Addr  { return &net.TCPAddr{} }
func (c *scriptConn) RemoteAddr() net.Addr { return &net.TCPAddr{} }
func (c *scriptConn) SetDeadline(t time.Time) error {
	c.setReadDeadline(t)
	return c.SetWriteDeadline(t)
}
func (c *scriptConn) SetReadDeadline(t time.Time) error { c.setReadDeadline(t); return nil }
func (c *scriptConn) SetWriteDeadline(t time.Time) error {
	c.mu.Lock()
	c.wdl = t
	c.mu.Unlock()
	return nil
}
func (c *scriptConn) WrittenBytes() int {
	c.mu.Lock()
	defer c.mu.Unlock()
	n := 0
	for _, w := range c.writes {
		n += len(w)
	}
	return n
}
func (c *scriptConn) Writes() [][]byte {
	c.mu.Lock()
	defer c.mu.Unlock()
	return append([][]byte{}, c.writes...)
}

// ---------------------------------------------------------------------------
// parsers

type rawMsg struct{ data []byte }

func (r *rawMsg) Len() uint16                    { return uint16(len(r.data)) }
func (r *rawMsg) MarshalBinary() ([]byte, error) { return append([]byte{}, r.data...), nil }
func (r *rawMsg) UnmarshalBinary(b []byte) error { r.data = append([]byte{}, b...); return nil }

// copyingParser keeps a private copy of every frame: framing is judged exactly,
// for arbitrary frame contents.
type copyingParser struct{ slow func() }

func (p copyingParser) Parse(b []byte) (util.Message, error) {
	m := &rawMsg{data: append([]byte{}, b...)}
	if p.slow != nil {
		p.slow()
	}
	return m, nil
}

type ofParser struct{}

func (ofParser) Parse(b []byte) (util.Message, error) { return of.Parse(b) }

// ---------------------------------------------------------------------------
// scripts

type inScript struct {
	frames    [][]byte
	tail      []byte // incomplete trailing frame (may be empty)
	chunks    [][]byte
	failAfter int // byte offset after which the connection fails (-1: never)
	failErr   error
	consumer  int // 0 eager, 1 bursts, 2 slow
	procs     int
	desc      []string
	cutInLen  bool
	spanning  bool
	// awaited (optional): the deliveries to wait for, by key. When set, only these count towards "everything
	// expected has arrived" (scripts that also contain frames for which anything or nothing may be handed over).
	awaited map[string]int
}

func rawFrame(rt *rapid.T, xid uint32, size int) []byte {
	b := make([]byte, size)
	b[0], b[1] = 4, byte(rapid.IntRange(0, 30).Draw(rt, "ftype"))
	binary.BigEndian.PutUint16(b[2:], uint16(size))
	binary.BigEndian.PutUint32(b[4:], xid)
	s := byte(xid*7 + 3)
	for i := 8; i < size; i++ {
		b[i] = s + byte(i*11) ^ byte(i>>8)
	}
	return b
}

func drawFrameSize(rt *rapid.T) int {
	switch gen.Pick(rt, "fsize_class", 8) {
	case 0:
		return 8
	case 1:
		return rapid.IntRange(9, 16).Draw(rt, "fsize_tiny")
	case 2, 3, 4:
		return rapid.IntRange(17, 400).Draw(rt, "fsize_small")
	case 5:
		return rapid.IntRange(401, 2047).Draw(rt, "fsize_mid")
	case 6:
		return rapid.SampledFrom([]int{2044, 2047, 2048, 2049, 2052, 4096, 4097}).Draw(rt, "fsize_edge")
	}
	return rapid.IntRange(2049, 6000).Draw(rt, "fsize_big")
}

// cut splits the byte stream into read chunks at arbitrary boundaries, with
// forced cuts inside length prefixes and exactly at frame ends.
func cutStream(rt *rapid.T, stream []byte, frameStarts []int, sc *inScript) {
	mode := gen.Pick(rt, "chunking", 6)
	cuts := map[int]bool{}
	if mode == 0 && len(stream) > 3000 {
		mode = 1
	}
	switch mode {
	case 0: // one byte at a time (bounded)
		for i := 1; i < len(stream); i++ {
			cuts[i] = true
		}
	case 1: // small random chunks
		for i := 0; i < len(stream); {
			i += rapid.IntRange(1, 40).Draw(rt, "chunk_small")
			cuts[i] = true
		}
	case 2: // frame-aligned
		for _, s := range frameStarts {
			cuts[s] = true
		}
	case 3: // large chunks (bigger than the reader's 2048-byte buffer)
		for i := 0; i < len(stream); {
			i += rapid.IntRange(1500, 5000).Draw(rt, "chunk_big")
			cuts[i] = true
		}
	default: // mixed
		for i := 0; i < len(stream); {
			i += rapid.IntRange(1, 3000).Draw(rt, "chunk_any")
			cuts[i] = true
		}
	}
	// forced cuts inside the 4-byte length prefix of some frames and right behind some frames
	for _, s := range frameStarts {
		switch gen.Pick(rt, "forced_cut", 6) {
		case 0:
			cuts[s+1] = true
			sc.cutInLen = true
		case 1:
			cuts[s+2] = true
			sc.cutInLen = true
		case 2:
			cuts[s+3] = true
			sc.cutInLen = true
		case 3:
			cuts[s] = true
		}
	}
	var pos []int
	for c := range cuts {
		if c > 0 && c < len(stream) {
			pos = append(pos, c)
		}
	}
	sort.Ints(pos)
	prev := 0
	for _, p := range append(pos, len(stream)) {
		if p > prev {
			sc.chunks = append(sc.chunks, stream[prev:p])
			prev = p
		}
	}
	// does any frame span two reads?
	for i, s := range frameStarts {
		end := len(stream)
		if i+1 < len(frameStarts) {
			end = frameStarts[i+1]
		}
		for _, p := range pos {
			if p > s && p < end {
				sc.spanning = true
			}
		}
	}
}

func drawInScript(rt *rapid.T, frames [][]byte) inScript {
	sc := inScript{frames: frames, failAfter: -1}
	var stream []byte
	var starts []int
	for _, f := range frames {
		starts = append(starts, len(stream))
		stream = append(stream, f...)
	}
	if gen.Pick(rt, "tail?", 3) == 0 && len(frames) > 0 {
		// an incomplete trailing frame: a prefix of a well-formed frame
		f := rawFrame(rt, 0xdeadbeef, drawFrameSize(rt))
		sc.tail = f[:rapid.IntRange(1, len(f)-1).Draw(rt, "tail_len")]
		starts = append(starts, len(stream))
		stream = append(stream, sc.tail...)
		sc.desc = append(sc.desc, fmt.Sprintf("incomplete tail %d/%d bytes", len(sc.tail), len(f)))
	}
	if gen.Pick(rt, "failure?", 3) == 0 {
		sc.failAfter = rapid.IntRange(0, len(stream)).Draw(rt, "fail_after")
		if rapid.Bool().Draw(rt, "fail_eof") {
			sc.failErr = io.EOF
		} else {
			sc.failErr = errors.New("read: connection reset by peer")
		}
		stream = stream[:sc.failAfter]
		sc.desc = append(sc.desc, fmt.Sprintf("failure %v after byte %d", sc.failErr, sc.failAfter))
	}
	var st []int
	for _, s := range starts {
		if s < len(stream) {
			st = append(st, s)
		}
	}
	cutStream(rt, stream, st, &sc)
	// a read may legitimately return no bytes and no error (io.Reader allows it: an empty record, a zero-length
	// write on the other side of a pipe); it is not the end of anything
	for k := gen.Pick(rt, "empty_reads", 4); k > 0 && len(sc.chunks) > 0; k-- {
		at := rapid.IntRange(0, len(sc.chunks)).Draw(rt, "empty_read_at")
		sc.chunks = append(sc.chunks[:at], append([][]byte{{}}, sc.chunks[at:]...)...)
		sc.desc = append(sc.desc, fmt.Sprintf("empty read #%d", at))
	}
	sc.consumer = gen.Pick(rt, "consumer", 3)
	sc.procs = []int{1, 2, 4, 16}[gen.Pick(rt, "gomaxprocs", 4)]
	sc.desc = append(sc.desc, fmt.Sprintf("%d frames, %d bytes, %d read chunks, consumer=%d, GOMAXPROCS=%d", len(frames), len(stream), len(sc.chunks), sc.consumer, sc.procs))
	return sc
}

// completeFrames is the de-framer reference model: the frames wholly contained
// in the first n bytes of the stream.
func completeFrames(frames [][]byte, n int) [][]byte {
	var out [][]byte
	off := 0
	for _, f := range frames {
		if off+len(f) > n {
			break
		}
		out = append(out, f)
		off += len(f)
	}
	return out
}

const lossWait = 30 * time.Second

type delivered struct {
	m    util.Message
	key  string // identity of the message content at delivery
	dump string
}

// runInbound plays a script and returns what the consumer saw.
func runInbound(sc inScript, parser util.Parser, keyOf func(util.Message) string, want int) (got []delivered, errs []error, timedOut bool, stream *util.MessageStream) {
	conn := newScriptConn(sc.chunks, sc.failErr)
	conn.delay = func(i int) {
		if i%7 == 3 {
			runtime.Gosched()
		}
	}
	old := runtime.GOMAXPROCS(sc.procs)
	defer runtime.GOMAXPROCS(old)
	ms := util.NewMessageStream(conn, parser)
	stream = ms
	deadline := time.After(lossWait)
	extra := time.NewTimer(time.Hour)
	extra.Stop()
	waitingExtra := false
	failed := sc.failAfter >= 0
	sawErr := false
	nonNil := 0 // deliveries that are messages (a nil hand-over for a rejected frame is not one)
	var awaited map[string]int
	if sc.awaited != nil {
		awaited = map[string]int{}
		for k, v := range sc.awaited {
			awaited[k] = v
		}
	}
loop:
	for {
		// all expected deliveries (and, on failure, the error) seen: linger briefly for anything extra
		if !waitingExtra && ((!failed && nonNil >= want) || (failed && sawErr)) {
			waitingExtra = true
			extra.Reset(40 * time.Millisecond)
		}
		if sc.consumer == 2 && len(got)%5 == 1 {
			time.Sleep(200 * time.Microsecond)
		}
		if sc.consumer == 1 && len(got)%16 == 15 {
			time.Sleep(time.Millisecond)
		}
		select {
		case m := <-ms.Inbound:
			d := delivered{m: m}
			if !isNilMsg(m) {
				d.key, d.dump = keyOf(m), obs.Deep(m)
				if awaited == nil {
					nonNil++
				} else if awaited[d.key] > 0 {
					awaited[d.key]--
					nonNil++
				}
			}
			got = append(got, d)
		case e := <-ms.Error:
			errs = append(errs, e)
			sawErr = true
		case <-extra.C:
			break loop
		case <-deadline:
			timedOut = true
			break loop
		}
	}
	// end the stream (closes the connection, releases the reader)
	select {
	case ms.Shutdown <- true:
	default:
	}
	conn.Close()
	return
}

func c10Rule(c *ev.Collector) {
	c.Rule("scripts = (1..400 well-formed frames of 8..6000 bytes incl. sizes around and above the 2048-byte pool buffers and runs that cycle the 50 pool buffers more than twice, unique xids; the byte stream cut into read chunks of 1 byte .. 5000 bytes " +
		"with forced cuts inside the 4-byte length prefix and at frame ends, chunks larger than the reader's buffer; optional incomplete trailing frame; consumer eager / bursty / slow; optional connection failure (EOF or reset) after any byte; " +
		"GOMAXPROCS in {1,2,4,16}). TestC10 uses a parser that copies each frame (framing judged exactly for arbitrary contents), TestC10Parse the real openflow13.Parse on conformant switch frames. Oracle = de-framer model over the complete " +
		"byte string: no failure => multiset of delivered messages == multiset of complete frames (waits up to 30 s for a missing one), nothing extra within a 40 ms drain, nothing from the incomplete tail, nothing on Error; " +
		"failure => delivered is a sub-multiset of the frames complete before the failure point and exactly one value arrives on Error. Every delivered message is deep-dumped at delivery and again after the whole script (buffer recycling must not change it). " +
		"Delivery order is not judged (25 parser goroutines). Built with -race. Non-trivial: a frame spanning >= 2 reads and a cut inside a length prefix, or a frame > 2048, or a mid-frame failure, or > 50 frames; distinct by hash of (frames, chunking, failure).")
	c.Assume("interleavings of reader, parser and consumer goroutines are sampled, not enumerated (GOMAXPROCS varied, yields injected at harness-owned points); loss is only observable as 'did not arrive within 30 s'",
		"frames are well formed (header length >= 8 == size); the error text the stream treats as a local close is never injected")
}

// frameKey identifies a frame by its content (printable).
func frameKey(b []byte) string {
	return fmt.Sprintf("frame[%d bytes, head %x, hash %016x]", len(b), b[:min(len(b), 12)], ev.Hash64(b))
}

func multiset(keys []string) map[string]int {
	m := map[string]int{}
	for _, k := range keys {
		m[k]++
	}
	return m
}

func judgeInbound(c *ev.Collector, rt *rapid.T, sc inScript, wantKeys []string, allowedKeys []string, got []delivered, errs []error, timedOut bool, tag string) bool {
	rep := map[string]any{"script": sc.desc, "chunk_sizes": chunkSizes(sc.chunks, 40), "frame_sizes": frameSizes(sc.frames, 40)}
	hist := func() string {
		return fmt.Sprintf("script %v; chunk sizes %v; frame sizes %v; delivered %d, errors %v", sc.desc, chunkSizes(sc.chunks, 40), frameSizes(sc.frames, 40), len(got), errs)
	}
	var gotKeys []string
	for _, d := range got {
		if isNilMsg(d.m) {
			c.Report(rt, "C10|"+tag+"|nil-delivered", "a nil message was delivered: "+hist(), rep)
			return false
		}
		gotKeys = append(gotKeys, d.key)
	}
	gm := multiset(gotKeys)
	if sc.failAfter < 0 {
		wm := multiset(wantKeys)
		for k, n := range gm {
			if wm[k] == 0 {
				c.Report(rt, "C10|"+tag+"|extra-or-corrupted", fmt.Sprintf("delivered a message that is no frame of the stream (%s): %s", clip(k, 120), hist()), rep)
				return false
			}
			if n > wm[k] {
				c.Report(rt, "C10|"+tag+"|duplicated", fmt.Sprintf("frame %s delivered %d times, sent %d times: %s", clip(k, 80), n, wm[k], hist()), rep)
				return false
			}
		}
		for k, n := range wm {
			if gm[k] < n {
				c.Report(rt, "C10|"+tag+"|lost", fmt.Sprintf("frame %s not delivered within %s (timed out: %v): %s", clip(k, 80), lossWait, timedOut, hist()), rep)
				return false
			}
		}
		if len(errs) > 0 {
			c.Report(rt, "C10|"+tag+"|spurious-error", fmt.Sprintf("error published without a connection failure: %v: %s", errs, hist()), rep)
			return false
		}
	} else {
		am := multiset(allowedKeys)
		for k, n := range gm {
			if n > am[k] {
				c.Report(rt, "C10|"+tag+"|delivered-incomplete-or-extra", fmt.Sprintf("after a failure at byte %d: delivered %s x%d, complete before the failure x%d: %s", sc.failAfter, clip(k, 80), n, am[k], hist()), rep)
				return false
			}
		}
		if len(errs) != 1 {
			c.Report(rt, fmt.Sprintf("C10|%s|error-count=%d", tag, min(len(errs), 2)), fmt.Sprintf("connection failed with %v: %d values on Error (timed out: %v): %s", sc.failErr, len(errs), timedOut, hist()), rep)
			return false
		}
	}
	// recycling must not have changed any delivered message
	for _, d := range got {
		if now := obs.Deep(d.m); now != d.dump {
			c.Report(rt, "C10|"+tag+"|changed-after-delivery", fmt.Sprintf("a delivered message changed while later frames were received: %s: %s", obs.FirstDiff(d.dump, now), hist()), rep)
			return false
		}
	}
	return true
}

func chunkSizes(ch [][]byte, max int) []int {
	var s []int
	for i, c := range ch {
		if i >= max {
			s = append(s, -1)
			break
		}
		s = append(s, len(c))
	}
	return s
}
func frameSizes(f [][]byte, max int) []int { return chunkSizes(f, max) }

func nontrivialIn(sc inScript) bool {
	big := false
	for _, f := range sc.frames {
		if len(f) > 2048 {
			big = true
		}
	}
	return (sc.spanning && sc.cutInLen) || big || sc.failAfter >= 0 || len(sc.frames) > 50
}

func inLabels(c *ev.Collector, sc inScript) {
	if sc.spanning {
		c.Label("frame_spans_reads")
	}
	if sc.cutInLen {
		c.Label("cut_inside_length_prefix")
	}
	if sc.failAfter >= 0 {
		c.Label("connection_failure")
	}
	if len(sc.tail) > 0 {
		c.Label("incomplete_tail")
	}
	if len(sc.frames) > 100 {
		c.Label("frames>100(pool cycled twice)")
	}
	for _, f := range sc.frames {
		if len(f) > 2048 {
			c.Label("frame>2048")
			break
		}
	}
	c.Label(fmt.Sprintf("GOMAXPROCS=%d", sc.procs))
	c.Label(fmt.Sprintf("consumer=%d", sc.consumer))
}

func TestC10(t *testing.T) {
	c := ev.For("C10")
	defer c.Done()
	c10Rule(c)
	checkRapid(t, c, func(rt *rapid.T) {
		n := 0
		switch gen.Pick(rt, "nframes_class", 6) {
		case 0:
			n = rapid.IntRange(1, 3).Draw(rt, "nframes_few")
		case 1, 2, 3:
			n = rapid.IntRange(4, 60).Draw(rt, "nframes")
		default:
			n = rapid.IntRange(101, 400).Draw(rt, "nframes_many")
		}
		// a burst: many minimal frames (barrier / echo replies are 8 bytes) arriving coalesced, so that single
		// reads hold far more complete frames than the stream has pool buffers (50) and parsers (25)
		burst := gen.Pick(rt, "tiny_burst", 6) == 0
		if burst {
			n = rapid.IntRange(51, 400).Draw(rt, "burst_frames")
		}
		// many large frames on one connection (flow-stats replies of a full table, packet-ins of jumbo frames):
		// more of them than the stream has pool buffers, each above any "small buffer" threshold a pool might use
		large := !burst && gen.Pick(rt, "many_large_frames", 10) == 0
		if large {
			n = rapid.IntRange(51, 70).Draw(rt, "large_frames")
			c.Label("more_large_frames_than_pool_buffers")
		}
		frames := make([][]byte, n)
		total := 0
		for i := range frames {
			sz := drawFrameSize(rt)
			if total > 300000 {
				sz = 8 + i%40
			}
			if burst {
				sz = 8 + 8*gen.Pick(rt, "burst_size", 3)
			}
			if large {
				sz = []int{4200, 8200, 9000, 16400, 33000}[gen.Pick(rt, "large_size", 5)]
				if i%7 == 3 {
					sz = 8 + i
				}
			}
			frames[i] = rawFrame(rt, uint32(i+1), sz)
			total += sz
		}
		sc := drawInScript(rt, frames)
		if burst && sc.failAfter < 0 {
			// re-cut: reads as large as the reader's buffer takes (up to 2048 bytes = up to 256 frames each)
			stream := bytes.Join(sc.chunks, nil)
			sc.chunks = nil
			for len(stream) > 0 {
				k := min(len(stream), rapid.IntRange(1200, 4000).Draw(rt, "burst_chunk"))
				sc.chunks = append(sc.chunks, stream[:k])
				stream = stream[k:]
			}
			sc.desc = append(sc.desc, fmt.Sprintf("burst of %d minimal frames in %d reads", n, len(sc.chunks)))
			c.Label("burst_of_minimal_frames_in_few_reads")
		}
		c.Eval()
		inLabels(c, sc)
		key := func(m util.Message) string {
			if r, ok := m.(*rawMsg); ok {
				return frameKey(r.data)
			}
			return "?"
		}
		var wantKeys, allowed []string
		for _, f := range frames {
			wantKeys = append(wantKeys, frameKey(f))
		}
		if sc.failAfter >= 0 {
			for _, f := range completeFrames(frames, sc.failAfter) {
				allowed = append(allowed, frameKey(f))
			}
		}
		var parser util.Parser = copyingParser{}
		if gen.Pick(rt, "slow_parser", 4) == 0 {
			parser = copyingParser{slow: runtime.Gosched}
		}
		// in a quarter of the scripts a second, independent stream is alive at the same time (a controller holds one
		// stream per switch): nothing of either connection may show up on the other
		var noise *noiseStream
		if gen.Pick(rt, "second_stream", 4) == 0 {
			noise = startNoiseStream(rt, 20+gen.Pick(rt, "noise_frames", 60))
			c.Label("second_stream_alive")
		}
		got, errs, timedOut, _ := runInbound(sc, parser, key, len(frames))
		ok := judgeInbound(c, rt, sc, wantKeys, allowed, got, errs, timedOut, "raw")
		if noise != nil {
			foreign, missing := noise.stop()
			if ok && (foreign > 0 || missing > 0) {
				c.Report(rt, "C10|raw|cross-stream", fmt.Sprintf("second stream: %d deliveries that are not its own frames, %d of its own frames never delivered: script %v", foreign, missing, sc.desc), map[string]any{"script": sc.desc})
				ok = false
			}
		}
		if ok && nontrivialIn(sc) {
			h := [][]byte{[]byte(fmt.Sprint(sc.desc, chunkSizes(sc.chunks, 1000)))}
			c.NonTrivial(ev.Hash64(append(h, frames[0])...))
		}
		if c.WantSample() {
			c.Sample(map[string]any{"script": sc.desc, "first_chunk_sizes": chunkSizes(sc.chunks, 12), "first_frame_sizes": frameSizes(sc.frames, 12), "delivered": len(got), "errors": len(errs)})
		}
	})
}

// TestC10Parse: the real parser on conformant switch frames; delivered values
// are compared (by deep dump) with what a direct Parse of each frame gives.
func TestC10Parse(t *testing.T) {
	c := ev.For("C10")
	defer c.Done()
	c10Rule(c)
	checkRapid(t, c, func(rt *rapid.T) {
		n := rapid.IntRange(1, 120).Draw(rt, "nframes")
		// in a third of the scripts the first frames are packet-ins (the messages with the most nested, variable
		// parts: match, VLAN, IP options, IPv6 extension headers, payload) and more than a pool's worth of frames
		// follows: the consumer still holds them when every buffer of the pool has been refilled
		heldPacketIns := 0
		if gen.Pick(rt, "packet_ins_first", 3) == 0 {
			heldPacketIns = 1 + gen.Pick(rt, "n_packet_ins_first", 4)
			n = rapid.IntRange(56, 120).Draw(rt, "nframes_after_packet_ins")
			c.Label("packet_ins_held_over_a_pool_cycle")
		}
		var frames [][]byte
		var wantKeys []string
		for i := 0; i < n; i++ {
			g := gen.New(rt, 300+gen.Pick(rt, "frame_budget", 4)*900)
			avoidOneWay(g)
			for k := range of10Kinds {
				g.Avoid[k] = true
			}
			var sm gen.SwitchMsg
			if i < heldPacketIns {
				sm = g.SwitchMessageOf("packet_in")
			} else {
				sm = g.SwitchMessage()
			}
			sm.Tree.Set("xid", uint64(i+1))
			b, big := encodeModel(sm.Tree)
			if big {
				continue
			}
			m, err := of.Parse(append([]byte{}, b...))
			if err != nil || isNilMsg(m) {
				continue // not this property's business
			}
			frames = append(frames, b)
			wantKeys = append(wantKeys, obs.Deep(m))
		}
		if len(frames) == 0 {
			return
		}
		sc := drawInScript(rt, frames)
		c.Eval()
		inLabels(c, sc)
		c.Label("real_parser")
		var allowed []string
		if sc.failAfter >= 0 {
			k := len(completeFrames(frames, sc.failAfter))
			allowed = wantKeys[:k]
		}
		got, errs, timedOut, _ := runInbound(sc, ofParser{}, func(m util.Message) string { return obs.Deep(m) }, len(frames))
		if judgeInbound(c, rt, sc, wantKeys, allowed, got, errs, timedOut, "of.Parse") && nontrivialIn(sc) {
			c.NonTrivial(ev.Hash64([]byte(fmt.Sprint(sc.desc, chunkSizes(sc.chunks, 1000))), bytes.Join(frames[:min(len(frames), 4)], nil)))
		}
	})
}

// noiseStream is a second MessageStream with its own connection and frames
// (xids from 0x80000000), consumed by its own goroutine.
type noiseStream struct {
	conn   *scriptConn
	ms     *util.MessageStream
	want   map[string]int
	mu     sync.Mutex
	seen   map[string]int
	done   chan struct{}
	closed chan struct{}
}

func startNoiseStream(rt *rapid.T, n int) *noiseStream {
	ns := &noiseStream{want: map[string]int{}, seen: map[string]int{}, done: make(chan struct{}), closed: make(chan struct{})}
	var chunks [][]byte
	for i := 0; i < n; i++ {
		f := rawFrame(rt, 0x80000000+uint32(i), []int{8, 24, 200, 2047, 2048, 2100, 3000}[i%7])
		ns.want[frameKey(f)]++
		// two reads per frame, cut inside the length prefix for every third frame
		cut := len(f) / 2
		if i%3 == 0 {
			cut = 2
		}
		chunks = append(chunks, f[:cut], f[cut:])
	}
	ns.conn = newScriptConn(chunks, nil)
	ns.conn.delay = func(i int) { runtime.Gosched() }
	ns.ms = util.NewMessageStream(ns.conn, copyingParser{})
	go func() {
		defer close(ns.closed)
		for {
			select {
			case m := <-ns.ms.Inbound:
				if r, ok := m.(*rawMsg); ok {
					ns.mu.Lock()
					ns.seen[frameKey(r.data)]++
					ns.mu.Unlock()
				}
			case <-ns.ms.Error:
			case <-ns.done:
				return
			}
		}
	}()
	return ns
}

// stop waits (up to the loss bound) for the noise stream's own frames, then
// ends it; returns foreign deliveries and missing own frames.
func (ns *noiseStream) stop() (foreign, missing int) {
	deadline := time.Now().Add(lossWait)
	for {
		ns.mu.Lock()
		foreign, missing = 0, 0
		for k, n := range ns.seen {
			if n > ns.want[k] {
				foreign += n - ns.want[k]
			}
		}
		for k, n := range ns.want {
			if ns.seen[k] < n {
				missing += n - ns.seen[k]
			}
		}
		ns.mu.Unlock()
		if missing == 0 || foreign > 0 || time.Now().After(deadline) {
			break
		}
		time.Sleep(time.Millisecond)
	}
	close(ns.done)
	<-ns.closed
	select {
	case ns.ms.Shutdown <- true:
	default:
	}
	ns.conn.Close()
	return
}
