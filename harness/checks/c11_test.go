package checks

import (
	"bytes"
	"encoding/binary"
	"fmt"
	"runtime"
	"sync"
	"testing"
	"time"

	"github.com/contiv/libOpenflow/util"
	"pgregory.net/rapid"
	"verifharness/ev"
	"verifharness/gen"
)

// C11 — outbound stream (DESIGN.md section 10, C11): every submitted message
// is written once, whole, and in per-producer order.

type outMsg struct {
	producer, seq int
	m             util.Message
	enc           []byte
}

func TestC11(t *testing.T) {
	c := ev.For("C11")
	defer c.Done()
	c.Rule("scripts = 1..16 producer goroutines x 1..200 messages each (total <= 1500) submitted to Outbound; messages are raw frames of 8 B .. 60 KiB (incl. sizes around 2048 and 4096) and real library messages " +
		"(flow-mod, group-mod, packet-out, hello, vendor) with xid = producer<<16 | sequence; producers start on a barrier and are paced (none / yield / sleep); the scripted connection records every Write call, " +
		"takes the bytes instantly or only after a delay (slow peer), never fails; GOMAXPROCS in {1,2,4,16}; built with -race. " +
		"Oracle on the byte stream (a writer may put several whole messages into one Write): the concatenated writes re-frame by header length without remainder; the frames equal the submitted encodings as multisets (none missing after a 30 s wait, none twice, nothing else); per producer the sequence numbers appear in ascending order. " +
		"Non-trivial: >= 2 producers and >= 2 different sizes; distinct by hash of the script.")
	c.Assume("a write error is outside the property (the stream calls log.Fatalf on it); schedules are sampled, not enumerated")
	checkRapid(t, c, func(rt *rapid.T) {
		np := []int{1, 2, 3, 4, 8, 16}[gen.Pick(rt, "producers", 6)]
		per := 1
		switch gen.Pick(rt, "per_class", 4) {
		case 0:
			per = rapid.IntRange(1, 3).Draw(rt, "per_few")
		case 1, 2:
			per = rapid.IntRange(4, 40).Draw(rt, "per")
		default:
			per = rapid.IntRange(41, 200).Draw(rt, "per_many")
		}
		if np*per > 1500 {
			per = 1500 / np
		}
		procs := []int{1, 2, 4, 16}[gen.Pick(rt, "gomaxprocs", 4)]
		pacing := gen.Pick(rt, "pacing", 3)
		slowPeer := gen.Pick(rt, "slow_peer", 3)
		// in a quarter of the scripts the raw frames of all producers are util.Buffer values over adjacent
		// sub-slices of ONE array (a caller forwarding frames out of a receive buffer): the encoding of such a
		// message is a view of that array with spare capacity behind it, which the writer must not write into
		sharedArr := gen.Pick(rt, "shared_array", 4) == 0
		var slab []byte
		msgs := make([][]outMsg, np)
		sizes := map[int]bool{}
		total := 0
		for p := 0; p < np; p++ {
			for s := 0; s < per; s++ {
				xid := uint32(p)<<16 | uint32(s)
				var m util.Message
				if gen.Pick(rt, "real?", 5) == 0 {
					g := gen.New(rt, 400)
					var lm util.Message
					if rk := gen.Pick(rt, "real_kind", 7); rk == 6 {
						// an error message with a payload (a proxy relaying a switch's answer, a test peer): its
						// data sits in a buffer object that every encoding has to leave as it is
						lm = g.SwitchMessageOf("error").Lib
					} else {
						lm, _ = g.MessageOf([]string{"flow_mod", "group_mod", "packet_out", "hello", "nx_tlv_table_mod", "set_config"}[rk])
					}
					// pin the xid: bytes 4..7 of the encoding identify producer and sequence
					setXid(lm, xid)
					m = lm
				} else {
					size := 8
					switch gen.Pick(rt, "size_class", 8) {
					case 0:
					case 1, 2, 3:
						size = rapid.IntRange(9, 300).Draw(rt, "size_small")
					case 4:
						size = rapid.SampledFrom([]int{2040, 2047, 2048, 2049, 4096, 3000, 65535, 65534, 65528}).Draw(rt, "size_edge")
						if size > 60000 && total > 1500000 {
							size = 2048
						}
					case 5, 6:
						size = rapid.IntRange(301, 4000).Draw(rt, "size_mid")
					default:
						if total < 2000000 {
							size = rapid.IntRange(4001, 61000).Draw(rt, "size_big")
						}
					}
					f := make([]byte, size)
					f[0], f[1] = []byte{4, 4, 4, 4, 4, 4, 1, 5}[gen.Pick(rt, "raw_version", 8)], 2
					binary.BigEndian.PutUint16(f[2:], uint16(size))
					binary.BigEndian.PutUint32(f[4:], xid)
					for i := 8; i < size; i++ {
						f[i] = byte(xid) + byte(i*5) ^ byte(i>>8)
					}
					if sharedArr && size <= 4000 {
						off := len(slab)
						slab = append(slab, f...)
						_ = off
						m = nil // built after the slab is complete (append may move it)
						msgs[p] = append(msgs[p], outMsg{p, s, nil, f})
						sizes[len(f)] = true
						total += len(f)
						continue
					}
					switch gen.Pick(rt, "raw_as", 4) {
					case 0:
						// a util.Buffer created empty (with room) and then filled, as a caller assembling a frame does
						b := util.NewBuffer(make([]byte, 0, size))
						b.Write(f)
						m = b
					case 1:
						m = util.NewBuffer(append([]byte{}, f...))
					default:
						m = &rawMsg{data: f}
					}
				}
				enc, _ := m.MarshalBinary()
				enc = append([]byte{}, enc...)
				sizes[len(enc)] = true
				total += len(enc)
				msgs[p] = append(msgs[p], outMsg{p, s, m, enc})
			}
		}
		if sharedArr {
			// carve the util.Buffer messages out of the finished slab, in submission-independent order
			off := 0
			for p := range msgs {
				for i := range msgs[p] {
					if msgs[p][i].m == nil {
						n := len(msgs[p][i].enc)
						msgs[p][i].m = util.NewBuffer(slab[off : off+n]) // capacity runs on into the following frames
						off += n
					}
				}
			}
			c.Label("messages_share_one_array")
		}
		// in a quarter of the scripts producers submit some of their message OBJECTS again later (a
		// keep-alive or barrier request a caller builds once and sends periodically): every submission
		// is one more message on the wire
		want := np * per
		if gen.Pick(rt, "resubmit", 4) == 0 {
			for p := range msgs {
				k := rapid.IntRange(0, 3).Draw(rt, "resubmissions")
				for ; k > 0 && want < 1600; k-- {
					src := rapid.IntRange(0, len(msgs[p])-1).Draw(rt, "resubmit_which")
					at := rapid.IntRange(src+1, len(msgs[p])).Draw(rt, "resubmit_at")
					om := msgs[p][src]
					msgs[p] = append(msgs[p][:at], append([]outMsg{om}, msgs[p][at:]...)...)
					total += len(om.enc)
					want++
				}
				for i := range msgs[p] {
					msgs[p][i].seq = i
				}
			}
			c.Label("message_objects_submitted_again")
		}
		conn := newScriptConn(nil, nil)
		if slowPeer > 0 {
			conn.wdelay = func(i int) {
				if slowPeer == 1 {
					runtime.Gosched()
				} else if i%3 == 0 {
					time.Sleep(150 * time.Microsecond)
				}
			}
		}
		old := runtime.GOMAXPROCS(procs)
		defer runtime.GOMAXPROCS(old)
		start := make(chan struct{})
		// in a quarter of the scripts a second stream (own connection, own producer) sends library messages at the
		// same time: every stream has its own writer goroutine, and what they encode concurrently must not mix
		var noiseConn *scriptConn
		var noiseWant [][]byte
		noiseDone := make(chan struct{})
		if gen.Pick(rt, "second_stream", 4) == 0 {
			var nmsgs []util.Message
			for i, k := 0, rapid.IntRange(5, 60).Draw(rt, "second_stream_msgs"); i < k; i++ {
				g := gen.New(rt, 300)
				lm, _ := g.MessageOf([]string{"flow_mod", "group_mod", "packet_out", "set_config"}[gen.Pick(rt, "noise_kind", 4)])
				setXid(lm, 0x80000000+uint32(i))
				enc, _ := lm.MarshalBinary()
				nmsgs, noiseWant = append(nmsgs, lm), append(noiseWant, append([]byte{}, enc...))
			}
			if gen.Pick(rt, "second_stream_relays_pieces", 2) == 0 {
				// a relay: the pre-encoded batch is submitted as fixed-size pieces (the last one shorter), which
				// do not start at frame boundaries; to the stream each piece is a message like any other
				batch := bytes.Join(noiseWant, nil)
				ps := []int{7, 8, 12, 16, 24, 64, 100, 1000}[gen.Pick(rt, "piece_size", 8)]
				nmsgs, noiseWant = nil, nil
				for o := 0; o < len(batch); o += ps {
					piece := append([]byte{}, batch[o:min(o+ps, len(batch))]...)
					noiseWant = append(noiseWant, piece)
					if len(nmsgs)%2 == 0 {
						nmsgs = append(nmsgs, util.NewBuffer(append([]byte{}, piece...)))
					} else {
						nmsgs = append(nmsgs, &rawMsg{data: append([]byte{}, piece...)})
					}
				}
				c.Label("second_stream_relays_unframed_pieces")
			}
			noiseConn = newScriptConn(nil, nil)
			nms := util.NewMessageStream(noiseConn, copyingParser{})
			go func() {
				defer close(noiseDone)
				<-start
				for _, m := range nmsgs {
					nms.Outbound <- m
				}
			}()
			defer func() {
				select {
				case nms.Shutdown <- true:
				default:
				}
				noiseConn.Close()
			}()
			c.Label("second_stream_sending")
		} else {
			close(noiseDone)
		}
		ms := util.NewMessageStream(conn, copyingParser{})
		// the stream has an exported field for the OpenFlow version of the connection; an application that
		// records the negotiated version there (a third of the scripts: 1.0, 1.3 or 1.4) still gets every
		// message written as submitted - messages of another version included (hello, a relayed frame)
		if v := []uint8{0, 0, 0, 0, 0, 0, 1, 4, 5}[gen.Pick(rt, "stream_version_field", 9)]; v != 0 {
			ms.Version = v
			c.Label(fmt.Sprintf("stream.Version=%d", v))
		}
		var wg sync.WaitGroup
		for p := 0; p < np; p++ {
			wg.Add(1)
			go func(p int) {
				defer wg.Done()
				<-start
				for i, om := range msgs[p] {
					ms.Outbound <- om.m
					switch pacing {
					case 1:
						runtime.Gosched()
					case 2:
						if i%4 == 0 {
							time.Sleep(50 * time.Microsecond)
						}
					}
				}
			}(p)
		}
		close(start)
		prodDone := make(chan struct{})
		go func() { wg.Wait(); close(prodDone) }()
		deadline := time.Now().Add(lossWait)
		timedOut := false
		for {
			if conn.WrittenBytes() >= total {
				select {
				case <-prodDone:
				default:
					time.Sleep(time.Millisecond)
					continue
				}
				break
			}
			if time.Now().After(deadline) {
				timedOut = true
				break
			}
			time.Sleep(200 * time.Microsecond)
		}
		time.Sleep(30 * time.Millisecond) // anything written twice shows up now
		writes := conn.Writes()
		select {
		case ms.Shutdown <- true:
		default:
		}
		conn.Close()
		c.Eval()
		desc := fmt.Sprintf("%d producers x %d messages, %d bytes, GOMAXPROCS=%d, pacing=%d, slow_peer=%d", np, per, total, procs, pacing, slowPeer)
		c.Label(fmt.Sprintf("producers=%d", np))
		c.Label(fmt.Sprintf("GOMAXPROCS=%d", procs))
		if slowPeer > 0 {
			c.Label("slow_peer")
		}
		rep := map[string]any{"script": desc}
		// The property is about the byte stream on the wire (a writer may legitimately put several whole
		// messages into one Write call): re-frame the concatenated writes by header length.
		stream := bytes.Join(writes, nil)
		var frames [][]byte
		off := 0
		for off+8 <= len(stream) {
			l := int(binary.BigEndian.Uint16(stream[off+2:]))
			if l < 8 || off+l > len(stream) {
				break
			}
			frames = append(frames, stream[off:off+l])
			off += l
		}
		if off != len(stream) {
			c.Report(rt, "C11|stream-does-not-reframe", fmt.Sprintf("%s: re-framing the %d written bytes by header length stops at byte %d after %d frames (torn or interleaved frame)", desc, len(stream), off, len(frames)), rep)
			return
		}
		wantSet := map[string][]outMsg{}
		for p := range msgs {
			for _, om := range msgs[p] {
				wantSet[string(om.enc)] = append(wantSet[string(om.enc)], om)
			}
		}
		lastSeq := make([]int, np)
		for i := range lastSeq {
			lastSeq[i] = -1
		}
		for fi, f := range frames {
			l := wantSet[string(f)]
			if len(l) == 0 {
				c.Report(rt, "C11|frame-not-a-submitted-message", fmt.Sprintf("%s: frame #%d on the wire (%d bytes, head %x) is not the encoding of a submitted message that is still outstanding (corrupted, interleaved or written twice)", desc, fi, len(f), f[:min(len(f), 16)]), rep)
				return
			}
			om := l[0]
			wantSet[string(f)] = l[1:]
			if om.seq <= lastSeq[om.producer] {
				c.Report(rt, "C11|producer-order", fmt.Sprintf("%s: producer %d: message %d is on the wire after message %d", desc, om.producer, om.seq, lastSeq[om.producer]), rep)
				return
			}
			lastSeq[om.producer] = om.seq
		}
		if len(frames) != want {
			c.Report(rt, "C11|lost", fmt.Sprintf("%s: %d of %d messages on the wire within %s (timed out: %v)", desc, len(frames), want, lossWait, timedOut), rep)
			return
		}
		if noiseConn != nil {
			<-noiseDone
			nd := time.Now().Add(lossWait)
			nt := 0
			for _, w := range noiseWant {
				nt += len(w)
			}
			for noiseConn.WrittenBytes() < nt && time.Now().Before(nd) {
				time.Sleep(time.Millisecond)
			}
			if got := bytes.Join(noiseConn.Writes(), nil); !bytes.Equal(got, bytes.Join(noiseWant, nil)) {
				c.Report(rt, "C11|second-stream|bytes-differ", fmt.Sprintf("%s: the second stream (one producer, %d messages) put %d bytes on its wire that are not the concatenation of its messages' encodings (%d bytes)", desc, len(noiseWant), len(got), nt), rep)
				return
			}
		}
		if np >= 2 && len(sizes) >= 2 {
			c.NonTrivial(ev.HashStr(desc, fmt.Sprint(len(sizes))))
		}
		if c.WantSample() {
			c.Sample(map[string]any{"script": desc, "writes": len(writes), "distinct_sizes": len(sizes)})
		}
	})
}

// setXid pins the transaction id of a library message.
func setXid(m util.Message, xid uint32) {
	type hdr interface{ Header() *commonHeader }
	_ = hdr(nil)
	setXidReflect(m, xid)
}

// TestC11Idle: timing around the stream's 10 s write timeout, on a connection
// that honours read and write deadlines the way a TCP connection does.
//   - a message submitted 9.6 s after the previous one whose write the peer holds
//     up for 1 s: the timeout applies to this write, counted from its start (a
//     deadline left over from the previous write would expire in the middle);
//   - then 10.5 s of silence in both directions: a deadline armed for the wrong
//     direction ends the stream during the pause.
//
// Everything submitted reaches the wire in order, nothing is published on Error,
// and the library does not terminate the process.
func TestC11Idle(t *testing.T) {
	c := ev.For("C11")
	defer c.Done()
	c.Rule("TestC11Idle: 3 messages; 9.6 s later one message whose write the peer delays by 1 s; 10.5 s of silence (longer than the stream's write timeout); 3 more messages - on a connection that honours read and write deadlines; " +
		"oracle: all 7 encodings on the wire in order, nothing on Error, no log.Fatal.")
	if !shard0() {
		return
	}
	conn := newScriptConn(nil, nil)
	conn.wdelay = func(i int) {
		if i == 3 {
			time.Sleep(time.Second)
		}
	}
	ms := util.NewMessageStream(conn, copyingParser{})
	var want []byte
	send := func(from, to int) {
		for i := from; i < to; i++ {
			f := make([]byte, 8+i*3)
			f[0], f[1] = 4, 2
			binary.BigEndian.PutUint16(f[2:], uint16(len(f)))
			binary.BigEndian.PutUint32(f[4:], uint32(i))
			want = append(want, f...)
			ms.Outbound <- &rawMsg{data: f}
		}
	}
	c.Eval()
	send(0, 3)
	time.Sleep(9600 * time.Millisecond)
	c.Eval()
	send(3, 4) // write #3: held up by the peer for 1 s, across the 10 s mark of the first writes
	time.Sleep(10500*time.Millisecond + time.Second)
	c.Eval()
	send(4, 7)
	deadline := time.Now().Add(lossWait)
	for conn.WrittenBytes() < len(want) && time.Now().Before(deadline) {
		time.Sleep(5 * time.Millisecond)
	}
	var errs []error
	select {
	case e := <-ms.Error:
		errs = append(errs, e)
	default:
	}
	got := bytes.Join(conn.Writes(), nil)
	select {
	case ms.Shutdown <- true:
	default:
	}
	conn.Close()
	if !bytes.Equal(got, want) || len(errs) > 0 {
		c.Report(t, "C11|idle|lost-around-the-write-timeout", fmt.Sprintf("3 messages, 9.6 s, a write delayed by 1 s, 10.5 s of silence, 3 more: %d of %d bytes on the wire, errors %v", len(got), len(want), errs), map[string]any{"wire": hx(got)})
		return
	}
	c.NonTrivial(ev.HashStr("idle", "slow write across the old deadline"))
	c.NonTrivial(ev.HashStr("idle", "after the pause"))
	c.Label("idle_longer_than_write_timeout")
}
