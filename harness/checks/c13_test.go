package checks

import (
	"bytes"
	"fmt"
	"sync"
	"testing"
	"time"

	of "github.com/contiv/libOpenflow/openflow13"
	"github.com/contiv/libOpenflow/protocol"
	"github.com/contiv/libOpenflow/util"
	"pgregory.net/rapid"
	"verifharness/ev"
	"verifharness/gen"
	"verifharness/obs"
)

// C13 — sizing and encoding are repeatable and do not disturb the value
// (DESIGN.md section 10, C13).
//
// A case is a completed value of any kind and a generated history of 2..12
// operations on it: Len, MarshalBinary, encode through an enclosing container
// (vendor header / bundle add for messages, instruction / bucket / conntrack /
// packet-out / flow-mod for actions and instructions, Ethernet / IPv4 / IPv6 for
// packet payloads), decode the last encoding. Oracle: every Len result is the
// same, every encoding is byte-equal, the child's stand-alone encoding before ==
// after being embedded, and decoding the first and the last encoding gives
// deep-dump-equal values.

// embedIn puts v into a fresh container of a fitting kind, encodes the
// container and returns what happened ("" when no container fits).
func embedIn(rt *rapid.T, v util.Message) (desc string, fr, msg string) {
	var cont util.Message
	switch x := v.(type) {
	case of.Action:
		switch gen.Pick(rt, "container", 4) {
		case 0:
			i := of.NewInstrApplyActions()
			i.AddAction(x, false)
			cont, desc = i, "InstrActions"
		case 1:
			b := of.NewBucket()
			b.AddAction(x)
			cont, desc = b, "Bucket"
		case 2:
			ct := of.NewNXActionConnTrack()
			ct.AddAction(x)
			cont, desc = ct, "NXActionConnTrack"
		default:
			p := of.NewPacketOut()
			p.AddAction(x)
			p.SetData([]byte{1, 2, 3})
			cont, desc = p, "PacketOut"
		}
	case of.Instruction:
		f := of.NewFlowMod()
		f.AddInstruction(x)
		cont, desc = f, "FlowMod"
	case *of.Bucket:
		g := of.NewGroupMod()
		g.AddBucket(*x)
		cont, desc = g, "GroupMod"
	case *of.MatchField:
		m := of.NewMatch()
		m.AddField(*x)
		cont, desc = m, "Match"
	default:
		if b, _, _ := safeMarshal(v); len(b) >= 8 && b[0] == 4 && isTopLevel(v) {
			ba := of.NewBundleAdd(&of.BundleAdd{BundleID: 7, Flags: 1, Message: v})
			cont, desc = ba, "VendorHeader(BundleAdd)"
		}
	}
	if cont == nil {
		return "", "", ""
	}
	// the container is sized and encoded the way the stream / wrappers do: Len twice, then MarshalBinary
	fr, msg = safeCall(func() {
		cont.Len()
		cont.Len()
		if _, err := cont.MarshalBinary(); err != nil {
			panic(err)
		}
	})
	return
}

// decodeByFamily decodes b the way the library does for this family and
// returns the deep dump of the result.
func decodeByFamily(gv genValue, b []byte) (string, bool) {
	var out util.Message
	var err error
	fr, _ := safeCall(func() {
		switch gv.family {
		case "message":
			out, _, err, _, _ = decodeTop(gv.v, append([]byte{}, b...))
		case "action":
			out, err = of.DecodeAction(append([]byte{}, b...))
		case "instr":
			out = of.DecodeInstr(append([]byte{}, b...))
		case "field":
			f := new(of.MatchField)
			err = f.UnmarshalBinary(append([]byte{}, b...))
			out = f
		case "bucket":
			k := new(of.Bucket)
			err = k.UnmarshalBinary(append([]byte{}, b...))
			out = k
		case "packet":
			d := freshLike(gv.v)
			err = d.UnmarshalBinary(append([]byte{}, b...))
			out = d
		}
	})
	if fr != "" || err != nil || isNilMsg(out) {
		return "", false
	}
	return obs.Deep(out), true
}

func isTopLevel(v util.Message) bool {
	switch v.(type) {
	case *of.FlowMod, *of.GroupMod, *of.PacketOut, *of.PortMod, *of.SwitchConfig, *of.MultipartRequest, *of.VendorHeader:
		return true
	}
	return fmt.Sprintf("%T", v) == "*common.Header" || fmt.Sprintf("%T", v) == "*common.Hello"
}

func TestC13(t *testing.T) {
	c := ev.For("C13")
	defer c.Done()
	c.Rule("rapid: a completed value of any encodable kind (same generator as C06) and a history of 2..12 operations drawn from {Len, MarshalBinary, size+encode through an enclosing container, decode the latest encoding into a fresh receiver}. " +
		"Oracle: all Len results equal; all encodings byte-equal (first vs every later one); the value as a caller sees it (all exported fields, recursively) after the first encoding == after the last operation " +
		"(write-backs must be idempotent); every decode of the (identical) encodings during and after the history gives the same deep dump. " +
		"Non-trivial: the history has >= 2 encodings with a Len in between or goes through a container; distinct by hash of (kind, bytes, history).")
	c.Assume("the first Len()/MarshalBinary may complete derived fields (header length, rounded lengths): the value is compared from its state after the first encoding onwards, not with its state before")
	checkRapid(t, c, func(rt *rapid.T) {
		c.Eval()
		gv := anyValue(rt, drawBudget(rt))
		addLabels(c, gv.labels)
		c.Label("family=" + gv.family)
		v := gv.v
		if gv.family == "packet" && c13LooseIHL(rt, v) {
			c.Label("ipv4_header_length_left_to_library")
			gv.kind += "(ihl<options)"
		}
		if gv.family == "packet" && c13RawICMPv6(rt, v) {
			c.Label("icmpv6_payload_as_raw_buffer")
			gv.kind += "(icmpv6 as buffer)"
		}
		// In half of the cases the children are encoded on their own first (they are completed values too:
		// a caller may log or checksum a payload before embedding it), and again after the history: sizing and
		// embedding a child, however often, does not change what the child itself encodes to.
		type kidEnc struct {
			k   util.Message
			enc []byte
		}
		var kids []kidEnc
		if rapid.Bool().Draw(rt, "children_encoded_first") {
			var walk func(m util.Message, depth int)
			walk = func(m util.Message, depth int) {
				_, segs, ok := layoutOf(m)
				if !ok || depth > 3 {
					return
				}
				for _, sg := range segs {
					if sg.kid == nil || isNilMsg(sg.kid) {
						continue
					}
					if b, fr, _ := safeMarshal(sg.kid); fr == "" {
						kids = append(kids, kidEnc{sg.kid, append([]byte{}, b...)})
					}
					walk(sg.kid, depth+1)
				}
			}
			walk(v, 0)
			if len(kids) > 0 {
				c.Label("children_encoded_before_and_after")
			}
		}
		nops := rapid.IntRange(2, 12).Draw(rt, "nops")
		var hist []string
		var firstEnc, lastEnc []byte
		firstLen := -1
		var dumpAfterFirst, firstDecode string
		encs, lenBetween, viaContainer := 0, false, false
		sawLenSinceEnc := false
		rep := func() map[string]any {
			return map[string]any{"kind": gv.kind, "history": hist, "first_encoding": hx(firstEnc)}
		}
		for i := 0; i < nops; i++ {
			op := gen.Pick(rt, "op", 4)
			if i == 0 && rapid.Bool().Draw(rt, "encode_first") {
				op = 1 // in half the cases the very first operation is an encode without a prior size query
			}
			if op == 2 && gv.family == "message" && rapid.Bool().Draw(rt, "via_stream") {
				// the stream's writer goroutine is one more "container": it encodes whatever it is handed
				w, ok := c13ViaStream(v)
				hist = append(hist, fmt.Sprintf("stream.Outbound(%d bytes written)", len(w)))
				viaContainer = true
				if !ok {
					c.Report(rt, "C13|"+fmt.Sprintf("%T", v)+"|stream-write-missing", fmt.Sprintf("%s: nothing written within 30 s; history %v", gv.kind, hist), rep())
					return
				}
				if firstEnc != nil && !bytes.Equal(w, firstEnc) {
					c.Report(rt, "C13|"+fmt.Sprintf("%T", v)+"|encode-unrepeatable", fmt.Sprintf("%s: the stream wrote %s, the first encoding was %s; history %v", gv.kind, hx(w), hx(firstEnc), hist), rep())
					return
				}
				continue
			}
			switch op {
			case 0:
				l, fr := safeLen(v)
				hist = append(hist, fmt.Sprintf("Len=%d", l))
				if fr != "" {
					c.Report(rt, "C13|"+fmt.Sprintf("%T", v)+"|Len-panic|"+fr, fmt.Sprint(hist), rep())
					return
				}
				if firstLen < 0 {
					firstLen = l
				} else if l != firstLen {
					c.Report(rt, "C13|"+fmt.Sprintf("%T", v)+"|Len-unrepeatable", fmt.Sprintf("%s: Len() gave %d, first gave %d; history %v", gv.kind, l, firstLen, hist), rep())
					return
				}
				sawLenSinceEnc = true
			case 1:
				b, fr, msg := safeMarshal(v)
				hist = append(hist, fmt.Sprintf("Marshal(%d bytes)", len(b)))
				if fr != "" {
					c.Report(rt, "C13|"+fmt.Sprintf("%T", v)+"|encode-panic|"+fr, msg+" "+fmt.Sprint(hist), rep())
					return
				}
				encs++
				if firstEnc == nil {
					firstEnc = b
					dumpAfterFirst = c13View(v)
				} else {
					if sawLenSinceEnc {
						lenBetween = true
					}
					if !bytes.Equal(b, firstEnc) {
						off := 0
						for off < len(b) && off < len(firstEnc) && b[off] == firstEnc[off] {
							off++
						}
						c.Report(rt, "C13|"+fmt.Sprintf("%T", v)+"|encode-unrepeatable", fmt.Sprintf("%s: encoding %d differs from the first at byte %d: %s vs %s; history %v", gv.kind, encs, off, hx(b), hx(firstEnc), hist), rep())
						return
					}
				}
				lastEnc = b
				sawLenSinceEnc = false
				if firstLen >= 0 && firstLen != len(b) {
					// C06's business, but the history must not continue on a broken basis
					c.Excluded("Len != bytes (C06)")
					return
				}
			case 2:
				desc, fr, msg := embedIn(rt, v)
				if desc == "" {
					continue
				}
				hist = append(hist, "embed in "+desc)
				viaContainer = true
				if fr != "" {
					c.Report(rt, "C13|"+fmt.Sprintf("%T", v)+"|container-encode-panic|"+desc, msg+" "+fmt.Sprint(hist), rep())
					return
				}
			case 3:
				if lastEnc == nil {
					continue
				}
				d, ok := decodeByFamily(gv, lastEnc)
				if !ok {
					continue
				}
				hist = append(hist, "decode latest")
				if firstDecode == "" {
					firstDecode = d
				} else if d != firstDecode {
					c.Report(rt, "C13|"+fmt.Sprintf("%T", v)+"|decode-unrepeatable", fmt.Sprintf("%s: decoding the same bytes gave a different value: %s; history %v", gv.kind, obs.FirstDiff(firstDecode, d), hist), rep())
					return
				}
			}
		}
		if firstEnc == nil {
			return
		}
		// final encoding and state
		b, fr, msg := safeMarshal(v)
		if fr != "" || !bytes.Equal(b, firstEnc) {
			c.Report(rt, "C13|"+fmt.Sprintf("%T", v)+"|encode-unrepeatable", fmt.Sprintf("%s: final encoding %s %s differs from the first: %s vs %s; history %v", gv.kind, fr, msg, hx(b), hx(firstEnc), hist), rep())
			return
		}
		if gv.trespass != nil {
			if w := gv.trespass(); w != "" {
				c.Report(rt, "C13|"+fmt.Sprintf("%T", v)+"|callers-memory-written", fmt.Sprintf("%s: sizing / encoding wrote outside the value: %s; history %v", gv.kind, w, hist), rep())
				return
			}
		}
		if d := c13View(v); d != dumpAfterFirst {
			c.Report(rt, "C13|"+fmt.Sprintf("%T", v)+"|value-disturbed", fmt.Sprintf("%s: the value changed between its first encoding and the end of the history %v: %s", gv.kind, hist, obs.FirstDiff(dumpAfterFirst, d)), rep())
			return
		}
		if firstDecode != "" {
			if d, ok := decodeByFamily(gv, b); ok && d != firstDecode {
				c.Report(rt, "C13|"+fmt.Sprintf("%T", v)+"|decode-unrepeatable", fmt.Sprintf("%s: decoding the final encoding differs from the earlier decode: %s; history %v", gv.kind, obs.FirstDiff(firstDecode, d), hist), rep())
				return
			}
		}
		for i, k := range kids {
			if b, fr, msg := safeMarshal(k.k); fr != "" || !bytes.Equal(b, k.enc) {
				c.Report(rt, fmt.Sprintf("C13|%T|child-disturbed|%T", v, k.k), fmt.Sprintf("%s: child %d (%T) encoded to %s before its parent was sized and encoded, and to %s %s %s afterwards; history %v", gv.kind, i, k.k, hx(k.enc), hx(b), fr, msg, hist), rep())
				return
			}
		}
		if (encs >= 2 && lenBetween) || viaContainer {
			c.NonTrivial(ev.Hash64([]byte(gv.kind), firstEnc, []byte(fmt.Sprint(hist))))
		}
		if viaContainer {
			c.Label("via_container")
		}
		if c.WantSample() {
			c.Sample(map[string]any{"kind": gv.kind, "history": hist, "bytes": len(firstEnc)})
		}
	})
}

// c13View is what a caller can see of a value: its exported fields, recursively.
// (Unexported state may legitimately change between calls - a cache filled on
// the second call - as long as no later result does; results are compared
// directly.)
func c13View(v util.Message) string { return obs.Dump(v, obs.Opts{ExportedOnly: true}) }

// c13RawICMPv6: an IPv6 packet whose ICMPv6 payload the caller holds as raw bytes
// (a util.Buffer, checksum field still zero) instead of a decoded *ICMP - what a
// caller forwarding or crafting neighbour-discovery messages has in hand.
func c13RawICMPv6(rt *rapid.T, v util.Message) bool {
	var ip *protocol.IPv6
	switch x := v.(type) {
	case *protocol.IPv6:
		ip = x
	case *protocol.Ethernet:
		ip, _ = x.Data.(*protocol.IPv6)
	}
	if ip == nil {
		return false
	}
	ic, ok := ip.Data.(*protocol.ICMP)
	if !ok || !rapid.Bool().Draw(rt, "icmpv6_as_buffer") {
		return false
	}
	b, fr, _ := safeMarshal(ic)
	if fr != "" || len(b) < 4 {
		return false
	}
	raw := append([]byte{}, b...)
	raw[2], raw[3] = 0, 0
	ip.Data = util.NewBuffer(raw)
	return true
}

// c13LooseIHL finds an IPv4 header with options inside v and, in half of the
// cases, lowers its IHL below what the options need (0, as NewIPv4 leaves it, or
// any value short of the options) - the caller who sets Options and leaves the
// header length to the library. The encoder copies options and payload with
// clipping copies, so such a value is encodable as long as the payload is at
// least as long as the uncovered part of the options (otherwise HEAD slices
// past the buffer: not an encodable value, not drawn). What it encodes to is
// not C13's business; that it does so repeatably is.
func c13LooseIHL(rt *rapid.T, v util.Message) bool {
	var ip *protocol.IPv4
	switch x := v.(type) {
	case *protocol.IPv4:
		ip = x
	case *protocol.Ethernet:
		ip, _ = x.Data.(*protocol.IPv4)
	}
	if ip == nil || ip.Options.Len() == 0 || ip.IHL <= 5 {
		return false
	}
	if gen.Pick(rt, "loose_ihl", 2) != 0 {
		return false
	}
	nopt := int(ip.IHL) - 5
	ihl := gen.Pick(rt, "ihl_words_covered", nopt) // 0..nopt-1 option words covered
	uncovered := 4 * (nopt - ihl)
	if ip.Data != nil && int(ip.Data.Len()) < uncovered {
		return false
	}
	if ihl == 0 && rapid.Bool().Draw(rt, "ihl_zero") {
		ip.IHL = 0
	} else {
		ip.IHL = uint8(5 + ihl)
	}
	return true
}

// one outbound stream per test process (a MessageStream owns ~28 goroutines)
var (
	c13Once   sync.Once
	c13Conn   *scriptConn
	c13Stream *util.MessageStream
	c13Mu     sync.Mutex
)

// c13ViaStream submits v to the stream and returns the bytes of the write it caused.
func c13ViaStream(v util.Message) ([]byte, bool) {
	c13Once.Do(func() {
		c13Conn = newScriptConn(nil, nil)
		c13Stream = util.NewMessageStream(c13Conn, copyingParser{})
	})
	c13Mu.Lock()
	defer c13Mu.Unlock()
	before := len(c13Conn.Writes())
	c13Stream.Outbound <- v
	deadline := time.Now().Add(lossWait)
	for time.Now().Before(deadline) {
		if w := c13Conn.Writes(); len(w) > before {
			out := w[len(w)-1]
			c13Conn.mu.Lock()
			c13Conn.writes = nil // keep the log short
			c13Conn.mu.Unlock()
			return out, true
		}
		time.Sleep(20 * time.Microsecond)
	}
	return nil, false
}
