package checks

import (
	"bytes"
	"encoding/binary"
	"fmt"
	"github.com/contiv/libOpenflow/ofbase"
	"net"
	"runtime"
	"sort"
	"sync"
	"sync/atomic"
	"testing"
	"time"

	"github.com/contiv/libOpenflow/common"
	of "github.com/contiv/libOpenflow/openflow13"
	"github.com/contiv/libOpenflow/protocol"
	"pgregory.net/rapid"
	"verifharness/ev"
	"verifharness/gen"
	"verifharness/obs"
	"verifharness/spec"
)

// C14 — concurrent use (DESIGN.md section 10, C14).
//
//	TestC14Xid    G goroutines draw transaction ids from the shared generators; all ids of a round are pairwise
//	              distinct, also across the 2^32 wrap (counter pre-set through the verif hook)
//	TestC14Batch  a batch of generated build / encode / parse / re-encode programs gives, run concurrently, exactly the
//	              bytes and deep dumps it gives run sequentially
//
// Both run under the race detector (driver builds them with -race; a race
// report is a violation) and, for volume, without it.

var c14G = []int{2, 3, 4, 8, 16, 32, 64}

func TestC14Xid(t *testing.T) {
	c := ev.For("C14")
	defer c.Done()
	c.Rule("xid rounds: G in {2,3,4,8,16,32,64} goroutines each draw n ids through openflow13.NewOfp13Header (one shared generator), through generators of their own " +
		"(common.NewHeaderGenerator) and through message constructors (NewFlowMod, NewEchoRequest, NewPacketOut, ...); in a third of the rounds the process-wide counter is first set just below 2^32 (hook). " +
		"Oracle: the ids of a round are pairwise distinct (set cardinality), every header carries version 4, and each goroutine's own ids are strictly increasing modulo 2^32 (successive differences in (0, 2^31)). " +
		"batch rounds: programs are rapid.Custom generators evaluated by seed (Example(seed)), so the same program can be run sequentially and then on G goroutines: build a controller message and encode it; " +
		"encode a conformant switch frame with the model, Parse it, deep-dump it, re-encode it; decode the packet-in payload. Oracle: concurrent bytes and dumps == sequential ones. " +
		"Non-trivial: G>=2 and measured overlap (every goroutine observed an id of another goroutine between two of its own / goroutines really ran at the same time); distinct by (G, n, seeds).")
	c.Assume("interleavings are sampled, not enumerated (the Go scheduler is not controllable): GOMAXPROCS is varied and goroutines start on a barrier; the race detector flags unsynchronised access on any executed schedule")

	if !hooksAvailable {
		c.Label("hooks_unavailable")
		c.Assume("built without the verif tag: the id counter cannot be placed below the 32-bit wrap, ids are drawn from wherever the counter stands")
	}
	rounds := ev.Scale(40, 400)
	seed := uint64(envInt("VERIF_SEED", 1))*1315423911 + uint64(envInt("VERIF_SHARD", 0))*2654435761
	for r := 0; r < rounds; r++ {
		g := c14G[r%len(c14G)]
		n := []int{1000, 4000, 20000}[(r/len(c14G))%3]
		if !ev.Thorough() && n*g > 200000 {
			n = 200000 / g
		}
		procs := []int{16, 4, 2, 8}[(r/3)%4]
		runtime.GOMAXPROCS(procs)
		nearWrap := r%3 == 1 && hooksAvailable
		if nearWrap {
			hookSetXidCounter(0xffffffff - uint32(seed>>uint(r%13))%uint32(n*g/2+1))
		}
		mode := r % 4 // 0 shared generator, 1 own generators, 2 constructors, 3 mixed
		// in every other round extra goroutines parse frames while the ids are drawn: parsing allocates its
		// receivers through the same constructors and must not disturb the ids handed to anyone else
		parsers := 0
		if r%2 == 1 {
			parsers = 1 + r%3
		}
		stopParsers := make(chan struct{})
		var pwg sync.WaitGroup
		var latest atomic.Uint32
		frames := c14ParseFrames()
		for pi := 0; pi < parsers; pi++ {
			pwg.Add(1)
			go func(pi int) {
				defer pwg.Done()
				for i := 0; ; i++ {
					select {
					case <-stopParsers:
						return
					default:
					}
					fr := frames[(i+pi)%len(frames)]
					if pi%2 == 0 && len(fr) >= 8 {
						// a peer's transaction ids are its own: they may lie anywhere, also just above what this
						// process has handed out so far (a decoder that "keeps the counter ahead of what it has
						// seen" then races with the drawers)
						fr = append([]byte{}, fr...)
						binary.BigEndian.PutUint32(fr[4:], latest.Load()+1+uint32(i%2))
					}
					of.Parse(fr)
					if i%8 == 0 {
						runtime.Gosched()
					}
				}
			}(pi)
		}
		ids := make([][]uint32, g)
		var badVersion atomic.Int64
		start := make(chan struct{})
		var wg sync.WaitGroup
		for gi := 0; gi < g; gi++ {
			wg.Add(1)
			go func(gi int) {
				defer wg.Done()
				own := common.NewHeaderGenerator(4)
				out := make([]uint32, 0, n)
				<-start
				for i := 0; i < n; i++ {
					var h common.Header
					m := mode
					if m == 3 {
						m = (i + gi) % 3
					}
					switch m {
					case 0:
						h = of.NewOfp13Header()
					case 1:
						h = own()
					default:
						switch i % 7 {
						case 5:
							hl, _ := common.NewHello(4)
							h = hl.Header
						case 6:
							h = *of.NewFeaturesRequest()
						case 0:
							h = of.NewFlowMod().Header
						case 1:
							h = *of.NewEchoRequest()
						case 2:
							h = of.NewPacketOut().Header
						case 3:
							h = of.NewGroupMod().Header
						default:
							h = of.NewSetConfig().Header
						}
					}
					if h.Version != 4 {
						badVersion.Add(1)
					}
					out = append(out, h.Xid)
					if parsers > 0 {
						latest.Store(h.Xid)
					}
				}
				ids[gi] = out
			}(gi)
		}
		close(start)
		wg.Wait()
		close(stopParsers)
		pwg.Wait()
		if parsers > 0 {
			c.Label("xid_with_concurrent_parsing")
		}
		c.Eval()
		// oracle
		seen := make(map[uint32]int, g*n)
		dups := 0
		var firstDup string
		for gi, l := range ids {
			for _, x := range l {
				if o, ok := seen[x]; ok {
					dups++
					if firstDup == "" {
						firstDup = fmt.Sprintf("xid %#x issued to goroutine %d and goroutine %d", x, o, gi)
					}
				}
				seen[x] = gi
			}
		}
		desc := fmt.Sprintf("round %d: G=%d n=%d GOMAXPROCS=%d mode=%d nearWrap=%v", r, g, n, procs, mode, nearWrap)
		if dups > 0 {
			c.Report(t, "C14|xid|dup-xid", fmt.Sprintf("%s: %d duplicate ids among %d draws; %s", desc, dups, g*n, firstDup), desc)
			return
		}
		if badVersion.Load() > 0 {
			c.Report(t, "C14|xid|header-version", fmt.Sprintf("%s: %d headers without version 4", desc, badVersion.Load()), desc)
			return
		}
		// per goroutine monotone (mod 2^32): differences are small positive numbers
		for gi, l := range ids {
			for i := 1; i < len(l); i++ {
				if d := l[i] - l[i-1]; d == 0 || d >= 1<<31 {
					c.Report(t, "C14|xid|not-monotone", fmt.Sprintf("%s: goroutine %d drew %#x after %#x", desc, gi, l[i], l[i-1]), desc)
					return
				}
			}
		}
		// overlap measure: goroutines whose id range interleaves with another's
		overl := 0
		for _, l := range ids {
			if len(l) > 1 && int(l[len(l)-1]-l[0]) >= len(l) {
				overl++
			}
		}
		c.Label(fmt.Sprintf("xid_G=%d", g))
		if nearWrap {
			c.Label("xid_counter_preset_near_wrap")
		}
		if overl == g {
			c.Label("xid_all_goroutines_overlapped")
			c.NonTrivial(ev.HashStr("xid", desc, fmt.Sprint(seed)))
		}
		if c.WantSample() {
			c.Sample(map[string]any{"round": desc, "distinct_ids": len(seen), "goroutines_overlapping": overl, "first_ids_g0": ids[0][:min(4, len(ids[0]))]})
		}
	}
	runtime.GOMAXPROCS(runtime.NumCPU())
}

// ---------------------------------------------------------------------------

type c14out struct {
	Bytes  []byte
	Dump   string
	Bytes2 []byte
	Err    string
}

var c14Uniq atomic.Uint64

// frames of the kinds whose receivers Parse allocates through constructors (flow-mod, features request/reply,
// set-config, flow-removed) plus a few others
// (built on first use, not at package initialisation: TestC14Cold needs a process in which no library code has run)
var c14ParseFramesOnce sync.Once
var c14ParseFramesV [][]byte

func c14ParseFrames() [][]byte {
	c14ParseFramesOnce.Do(func() {
		for _, k := range []string{"flow_mod", "set_config", "features_request", "hello", "barrier_request"} {
			c14ParseFramesV = append(c14ParseFramesV, c07SeedCtl(k).Example(3))
		}
		for _, k := range []string{"features_reply", "flow_removed", "packet_in", "port_status", "get_config_reply"} {
			c14ParseFramesV = append(c14ParseFramesV, c07SeedSw(k).Example(3))
		}
	})
	return c14ParseFramesV
}

var c14Build = rapid.Custom(func(rt *rapid.T) builtMsg { return buildMessage(rt, nil) })
var c14Switch = rapid.Custom(func(rt *rapid.T) gen.SwitchMsg {
	g := gen.New(rt, 1500)
	for _, fg := range gen.Fields {
		if !fg.TwoWay {
			g.Avoid[fg.Name] = true
		}
	}
	return g.SwitchMessage()
})

const c14Kinds = 5

var c14Hist = rapid.Custom(func(rt *rapid.T) []c19op { return c19History(rt) })

// c14Program runs program (kind, seed) start to finish on the calling goroutine.
func c14Program(kind int, seed int) (o c14out) {
	defer func() {
		if r := recover(); r != nil {
			o.Err = "panic: " + fmt.Sprint(r)
		}
	}()
	switch kind {
	case 0: // build through the API + encode (+ size before/after)
		bm := c14Build.Example(seed)
		l0 := bm.m.Len()
		b, err := bm.m.MarshalBinary()
		if err != nil {
			o.Err = err.Error()
		}
		o.Bytes = b
		o.Dump = fmt.Sprintf("Len=%d/%d ", l0, bm.m.Len()) + obs.Deep(bm.m)
		// the controller's own frames through the parser too (a proxy, a test peer): several kinds have no
		// decoder and come back as an error, which is a value like any other
		if pm, perr := of.Parse(append([]byte{}, b...)); perr != nil {
			o.Dump += " parse-error: " + perr.Error()
		} else if pm != nil {
			o.Bytes2, _ = pm.MarshalBinary()
		}
	case 1: // conformant switch frame -> Parse -> dump -> re-encode
		sm := c14Switch.Example(seed)
		b, big := encodeModel(sm.Tree)
		if big {
			return
		}
		o.Bytes = b
		m, err := of.Parse(b)
		if err != nil {
			o.Err = err.Error()
			return
		}
		o.Dump = obs.Deep(m)
		if m != nil {
			o.Bytes2, _ = m.MarshalBinary()
		}
		// and a flow-removed whose match carries a field the library knows of but has no decoder for (in_phy_port,
		// vlan_pcp, ip_ecn, mpls_tc, ...) or does not know at all: Parse answers with an error, from any goroutine
		fr := make([]byte, 64)
		fr[0], fr[1], fr[3] = 4, 11, 64
		fr[48+1], fr[48+3] = 1, 12
		fr[52] = 0x80
		fr[54] = []byte{1, 7, 9, 35, 37, 39, 50, 61}[seed%8] << 1
		fr[55] = 4
		if _, perr := of.Parse(fr); perr != nil {
			o.Dump += " undecodable-field: " + perr.Error()
		}
	case 2: // registry lookups + generic builder + ct_state builder + packet decode
		sm := c14Switch.Example(seed)
		var parts [][]byte
		for i, name := range []string{"NXM_NX_REG3", "OXM_OF_ETH_DST", "NXM_NX_CT_LABEL", "nxm_nx_tun_id", "NXM_NX_TUN_IPV6_DST", "OXM_OF_IPV6_ND_TARGET"} {
			// case pattern from the seed: spellings nobody has looked up before keep turning up in the concurrent phase
			sp := []byte(name)
			for bi := range sp {
				if (seed>>(uint(bi+i)%29))&1 == 1 {
					if sp[bi] >= 'A' && sp[bi] <= 'Z' {
						sp[bi] += 32
					} else if sp[bi] >= 'a' && sp[bi] <= 'z' {
						sp[bi] -= 32
					}
				}
			}
			f, err := of.FindFieldHeaderByName(string(sp), (seed+i)%2 == 0)
			if err != nil {
				o.Err = err.Error()
				return
			}
			parts = append(parts, []byte(fmt.Sprintf("%x/%d/%d/%v;", f.Class, f.Field, f.Length, f.HasMask)))
			f.Length, f.Field = 0, 0 // the result is the caller's
		}
		mf, err := of.NewMatchField("NXM_NX_REG5", uint32(seed&0xff), (seed>>3)%20, 8)
		if err == nil {
			b, _ := mf.MarshalBinary()
			parts = append(parts, b)
		}
		st := of.NewCTStates()
		if seed&1 == 1 {
			st.SetNew()
		} else {
			st.UnsetEst()
		}
		st.SetTrk()
		b, _ := of.NewCTStateMatchField(st).MarshalBinary()
		parts = append(parts, b)
		if sm.Pkt != nil {
			e := new(protocol.Ethernet)
			if err := e.UnmarshalBinary(sm.Pkt.Wire); err == nil {
				o.Dump = obs.Deep(e)
				o.Bytes2, _ = e.MarshalBinary()
			}
		}
		o.Bytes = bytes.Join(parts, nil)
	case 4: // the base encoder / decoder pair: a history of typed writes, encoded and read back
		ops := c14Hist.Example(seed)
		c19Model(ops)
		o.Bytes = c19Encode(ops)
		d := ofbase.NewDecoder(append([]byte{}, o.Bytes...))
		var vals []string
		for _, op := range ops {
			switch op.kind {
			case 0, 7:
				vals = append(vals, fmt.Sprint(d.ReadUint8()))
			case 1:
				vals = append(vals, fmt.Sprint(d.ReadUint16()))
			case 2:
				vals = append(vals, fmt.Sprint(d.ReadUint32()))
			case 3:
				vals = append(vals, fmt.Sprint(d.ReadUint64()))
			case 4:
				v := d.ReadUint128()
				vals = append(vals, fmt.Sprint(v.Hi, v.Lo))
			case 5:
				vals = append(vals, fmt.Sprintf("%x", d.Read(len(op.raw))))
			case 6:
				d.SkipAlign()
			}
		}
		o.Dump = fmt.Sprint(vals)
	case 3: // DHCP: a short read (fixed part only) followed by a full read of another message, as a caller peeking at the header does
		m1, m2 := c14DHCP.Example(seed), c14DHCP.Example(seed+1)
		short := make([]byte, 240)
		n1, _ := m1.Val.Read(short)
		full := make([]byte, len(m2.Wire)+512)
		n2, err := m2.Val.Read(full)
		if err != nil {
			o.Err = err.Error()
		}
		o.Bytes = append(append([]byte{}, short[:n1]...), full[:n2]...)
		d := new(protocol.DHCP)
		if _, err := d.Write(append([]byte{}, m2.Wire...)); err == nil {
			o.Dump = obs.Dump(d, obs.Opts{ExportedOnly: true, Normalise: true, SkipFields: map[string]bool{"DHCP.Options": true}})
		}
		// a message whose transaction id is left to the library (xid 0 = "pick one"): the id is random and is
		// replaced before the message is compared; picking it must be safe from any goroutine
		hw := net.HardwareAddr{2, 0, 0, byte(seed >> 16), byte(seed >> 8), byte(seed)}
		ctor := []func(uint32, net.HardwareAddr) (*protocol.DHCP, error){protocol.NewDHCPDiscover, protocol.NewDHCPOffer, protocol.NewDHCPRequest, protocol.NewDHCPAck, protocol.NewDHCPNak}[seed%5]
		if d0, err := ctor(0, hw); err == nil {
			d0.Xid = uint32(seed)
			buf := make([]byte, 600)
			n0, _ := d0.Read(buf)
			o.Bytes2 = buf[:n0]
		}
	}
	return
}

// TestC14Cold: the first use of the library in a process, made concurrently. State
// that is built lazily on first use (a table filled by the first caller, a cache, a
// pool) has exactly one such moment per process, and a sequential warm-up - any
// earlier test, the reference run of TestC14Batch - hides it. This test is the
// only thing its process does: 16 goroutines leave a barrier and each builds,
// encodes, parses and looks up its own programs (the generators run inside the
// goroutines, so constructors are first called there); afterwards the same
// programs are run one after another and must give the same bytes and values.
// Built with -race; one cold start per shard.
func TestC14Cold(t *testing.T) {
	c := ev.For("C14")
	defer c.Done()
	c.Rule("TestC14Cold: per process (shard) one concurrent cold start - first one aligned wave per match-field constructor, action constructor, packet-header family, switch-originated message kind (Parse) and registry lookup (all 16 goroutines use the same constructor with generated arguments at the same moment and encode the result; order rotated per process), then 16 goroutines x 10..40 programs of the four TestC14Batch kinds, generated and run inside the goroutines before any other library call of the process; " +
		"oracle: -race report, crash, or any difference from the sequential re-run of the same programs.")
	const G = 16
	per := ev.Scale(10, 40)
	base := envInt("VERIF_SEED", 1)*1000003 + envInt("VERIF_SHARD", 0)*7919
	// Phase 0, aligned waves: for every match-field and action constructor in turn (order rotated per process) all
	// goroutines use that one constructor at the same moment, so that the process's FIRST use of whatever the
	// constructor touches happens on 16 goroutines at once. Nothing in a wave synchronises the goroutines with
	// each other (no transaction id is drawn), so the race detector sees an unsynchronised lazily built table
	// on any schedule, not only when the accesses really overlap in time.
	waves := c14Waves()
	rot := (envInt("VERIF_SHARD", 0)*37 + envInt("VERIF_SEED", 1)*11) % len(waves)
	waves = append(append([]c14Wave{}, waves[rot:]...), waves[:rot]...)
	wouts := make([][][]byte, len(waves))
	for wi, w := range waves {
		wouts[wi] = make([][]byte, G)
		gate := make(chan struct{})
		var wwg sync.WaitGroup
		for g := 0; g < G; g++ {
			wwg.Add(1)
			go func(g int) {
				defer wwg.Done()
				<-gate
				wouts[wi][g] = w.run(base + g*977 + wi)
			}(g)
		}
		close(gate)
		wwg.Wait()
	}
	for wi, w := range waves {
		for g := 0; g < G; g++ {
			c.Eval()
			if ref := w.run(base + g*977 + wi); !bytes.Equal(ref, wouts[wi][g]) {
				c.Report(t, "C14|cold-start|cross-talk|bytes|"+w.name, fmt.Sprintf("%s with seed %d on goroutine %d of %d, all goroutines using this constructor at once (wave %d of the process): concurrent %s, sequential %s",
					w.name, base+g*977+wi, g, G, wi, hx(wouts[wi][g]), hx(ref)), map[string]any{"wave": w.name})
				return
			}
		}
		c.NonTrivial(ev.HashStr("wave", w.name, fmt.Sprint(base)))
	}
	c.LabelN("cold_waves", int64(len(waves)))
	outs := make([][]c14out, G)
	start := make(chan struct{})
	var wg sync.WaitGroup
	for g := 0; g < G; g++ {
		wg.Add(1)
		go func(g int) {
			defer wg.Done()
			<-start
			for i := 0; i < per; i++ {
				outs[g] = append(outs[g], c14Program((g+i)%c14Kinds, base+g*131+i))
			}
		}(g)
	}
	close(start)
	wg.Wait()
	for g := 0; g < G; g++ {
		for i := 0; i < per; i++ {
			c.Eval()
			kind, seed := (g+i)%c14Kinds, base+g*131+i
			ref := c14Program(kind, seed)
			got := outs[g][i]
			if !bytes.Equal(ref.Bytes, got.Bytes) || !bytes.Equal(ref.Bytes2, got.Bytes2) || ref.Dump != got.Dump || ref.Err != got.Err {
				what := "bytes"
				if bytes.Equal(ref.Bytes, got.Bytes) && bytes.Equal(ref.Bytes2, got.Bytes2) {
					what = "value"
				}
				if ref.Err != got.Err {
					what = "error"
				}
				c.Report(t, fmt.Sprintf("C14|cold-start|cross-talk|%s|kind%d", what, kind), fmt.Sprintf("program kind %d seed %d on goroutine %d of %d at process start: concurrent %s err=%q, sequential %s err=%q; %s",
					kind, seed, g, G, hx(got.Bytes), got.Err, hx(ref.Bytes), ref.Err, obs.FirstDiff(ref.Dump, got.Dump)), map[string]any{"kind": kind, "seed": seed})
				return
			}
			c.NonTrivial(ev.HashStr("cold", fmt.Sprint(kind, seed)))
		}
	}
	c.Label("cold_start")
}

// c14Wave: one constructor, used with generated arguments and encoded. Building the table calls nothing in the library.
type c14Wave struct {
	name string
	run  func(seed int) []byte
}

func c14Waves() []c14Wave {
	var ws []c14Wave
	enc := func(m interface{ MarshalBinary() ([]byte, error) }) (b []byte) {
		defer func() {
			if r := recover(); r != nil {
				b = []byte("panic: " + fmt.Sprint(r))
			}
		}()
		b, err := m.MarshalBinary()
		if err != nil {
			return []byte("error: " + err.Error())
		}
		return b
	}
	for _, fg := range gen.Fields {
		fg := fg
		// one generator object per call: rapid's generators are not meant to be shared between goroutines
		ws = append(ws, c14Wave{"field:" + fg.Name, func(seed int) []byte {
			return rapid.Custom(func(rt *rapid.T) []byte {
				rapid.Bool().Draw(rt, "_") // constructors without arguments draw nothing of their own
				f, _ := fg.Gen(gen.New(rt, 400))
				return enc(f)
			}).Example(seed)
		}})
	}
	for _, ag := range gen.Actions {
		ag := ag
		ws = append(ws, c14Wave{"action:" + ag.Name, func(seed int) []byte {
			return rapid.Custom(func(rt *rapid.T) []byte {
				rapid.Bool().Draw(rt, "_")
				g := gen.New(rt, 400)
				g.Depth = 1
				a, _ := ag.Gen(g)
				return enc(a)
			}).Example(seed)
		}})
	}
	// packet headers: build + encode, then decode the bytes into a fresh frame and encode again
	ws = append(ws, c14Wave{"packet:Ethernet", func(seed int) []byte {
		return rapid.Custom(func(rt *rapid.T) []byte {
			p := gen.New(rt, 400).Ethernet(300)
			b := enc(p.Eth)
			e := new(protocol.Ethernet)
			if err := e.UnmarshalBinary(append([]byte{}, b...)); err != nil {
				return append(b, []byte(" decode-error: "+err.Error())...)
			}
			return append(b, enc(e)...)
		}).Example(seed)
	}})
	ws = append(ws, c14Wave{"packet:DHCP", func(seed int) []byte {
		return rapid.Custom(func(rt *rapid.T) []byte {
			m := gen.New(rt, 600).DHCP()
			buf := make([]byte, int(m.Val.Len())+16)
			n, err := m.Val.Read(buf)
			if err != nil {
				return []byte("error: " + err.Error())
			}
			return buf[:n]
		}).Example(seed)
	}})
	ws = append(ws, c14Wave{"packet:other-headers", func(seed int) []byte {
		return rapid.Custom(func(rt *rapid.T) []byte {
			p := gen.New(rt, 400).ProtoValue()
			if p.Val == nil {
				return nil
			}
			return enc(p.Val)
		}).Example(seed)
	}})
	// every controller-originated message kind: built and encoded (each construction draws a transaction id, which
	// orders the goroutines' constructions with each other but not what they do afterwards: the first ENCODE of
	// each kind still happens on 16 goroutines with nothing between them)
	for _, k := range gen.MessageKinds {
		k := k
		ws = append(ws, c14Wave{"message:" + k, func(seed int) []byte {
			return rapid.Custom(func(rt *rapid.T) []byte {
				rapid.Bool().Draw(rt, "_")
				m, _ := gen.New(rt, 300).MessageOf(k)
				setXid(m, uint32(seed))
				return enc(m)
			}).Example(seed)
		}})
	}
	// every switch-originated kind: a conformant frame from the model through Parse, re-encoded
	for _, k := range gen.SwitchKinds {
		k := k
		ws = append(ws, c14Wave{"parse:" + k, func(seed int) []byte {
			return rapid.Custom(func(rt *rapid.T) []byte {
				sm := gen.New(rt, 400).SwitchMessageOf(k)
				b, big := encodeModel(sm.Tree)
				if big {
					return nil
				}
				m, err := of.Parse(b)
				if err != nil {
					return []byte("parse-error: " + err.Error())
				}
				if isNilMsg(m) {
					return []byte("nil")
				}
				return enc(m)
			}).Example(seed)
		}})
	}
	// registry lookups by name
	for _, name := range []string{"NXM_NX_REG0", "NXM_NX_REG15", "NXM_NX_XXREG3", "NXM_NX_TUN_METADATA7", "OXM_OF_ETH_DST", "NXM_NX_CT_LABEL", "NXM_NX_CT_STATE", "OXM_OF_IPV6_ND_TARGET", "NXM_NX_NOT_REGISTERED"} {
		name := name
		ws = append(ws, c14Wave{"lookup:" + name, func(seed int) []byte {
			f, err := of.FindFieldHeaderByName(name, seed%2 == 1)
			if err != nil {
				return []byte("error")
			}
			return []byte(fmt.Sprintf("%#x/%d/%d/%v", f.Class, f.Field, f.Length, f.HasMask))
		}})
	}
	return ws
}

var c14DHCP = rapid.Custom(func(rt *rapid.T) gen.DHCPMsg { return gen.New(rt, 600).DHCP() })

func TestC14Batch(t *testing.T) {
	c := ev.For("C14")
	defer c.Done()
	_ = spec.OFVersion
	checkRapid(t, c, func(rt *rapid.T) {
		g := c14G[gen.Pick(rt, "G", len(c14G))]
		per := rapid.IntRange(1, 6).Draw(rt, "programs_per_goroutine")
		procs := []int{1, 2, 4, 16}[gen.Pick(rt, "gomaxprocs", 4)]
		type prog struct{ kind, seed int }
		progs := make([][]prog, g)
		var script []string
		for gi := range progs {
			for j := 0; j < per; j++ {
				p := prog{gen.Pick(rt, "kind", c14Kinds), rapid.IntRange(1, 1<<30).Draw(rt, "seed")}
				progs[gi] = append(progs[gi], p)
				script = append(script, fmt.Sprintf("g%d:%d/%d", gi, p.kind, p.seed))
			}
		}
		// sequential reference
		ref := make([][]c14out, g)
		for gi := range progs {
			for _, p := range progs[gi] {
				ref[gi] = append(ref[gi], c14Program(p.kind, p.seed))
			}
		}
		// the reference itself must be repeatable, or the comparison means nothing
		for gi := range progs {
			for j, p := range progs[gi] {
				again := c14Program(p.kind, p.seed)
				if !bytes.Equal(again.Bytes, ref[gi][j].Bytes) || again.Dump != ref[gi][j].Dump {
					c.Excluded("program not repeatable sequentially (xid or map order in dump)")
					return
				}
			}
		}
		runtime.GOMAXPROCS(procs)
		defer runtime.GOMAXPROCS(runtime.NumCPU())
		got := make([][]c14out, g)
		var running, maxRunning atomic.Int32
		var lookupBad atomic.Int32
		start := make(chan struct{})
		var wg sync.WaitGroup
		for gi := 0; gi < g; gi++ {
			wg.Add(1)
			go func(gi int) {
				defer wg.Done()
				<-start
				cur := running.Add(1)
				for {
					m := maxRunning.Load()
					if cur <= m || maxRunning.CompareAndSwap(m, cur) {
						break
					}
				}
				for pi, p := range progs[gi] {
					// a registry lookup in a spelling that no one has used before (the registry must stay read-only
					// whatever the spelling), checked against the sequentially obtained header
					u := c14Uniq.Add(1)
					name := []byte("nxm_nx_reg7")
					if (gi+pi)%2 == 1 {
						name = []byte("oxm_of_ipv6_nd_target")
					}
					for bi := range name {
						if (u>>uint(bi%31))&1 == 1 && name[bi] >= 'a' && name[bi] <= 'z' {
							name[bi] -= 32
						}
					}
					if f, err := of.FindFieldHeaderByName(string(name), false); err != nil || f.Length == 0 || f.HasMask {
						lookupBad.Add(1)
					}
					got[gi] = append(got[gi], c14Program(p.kind, p.seed))
					runtime.Gosched()
				}
				running.Add(-1)
			}(gi)
		}
		close(start)
		done := make(chan struct{})
		go func() { wg.Wait(); close(done) }()
		select {
		case <-done:
		case <-time.After(120 * time.Second):
			c.Report(rt, "C14|batch|hang", fmt.Sprintf("concurrent batch did not finish in 120s: %v", script), script)
			return
		}
		c.Eval()
		c.Label(fmt.Sprintf("batch_G=%d", g))
		if lookupBad.Load() > 0 {
			c.Report(rt, "C14|batch|cross-talk|registry-lookup", fmt.Sprintf("%d concurrent registry lookups in fresh spellings failed or returned a wrong header; script %v", lookupBad.Load(), script), script)
			return
		}
		for gi := range progs {
			for j, p := range progs[gi] {
				a, b := ref[gi][j], got[gi][j]
				if !bytes.Equal(a.Bytes, b.Bytes) || !bytes.Equal(a.Bytes2, b.Bytes2) || a.Err != b.Err {
					c.Report(rt, fmt.Sprintf("C14|batch|cross-talk|bytes|kind%d", p.kind), fmt.Sprintf("program %d/%d on goroutine %d of %d: sequential %s / %s err=%q, concurrent %s / %s err=%q; script %v",
						p.kind, p.seed, gi, g, clipHex(a.Bytes, 64), clipHex(a.Bytes2, 64), a.Err, clipHex(b.Bytes, 64), clipHex(b.Bytes2, 64), b.Err, script), script)
					return
				}
				if a.Dump != b.Dump {
					c.Report(rt, fmt.Sprintf("C14|batch|cross-talk|value|kind%d", p.kind), fmt.Sprintf("program %d/%d: %s; script %v", p.kind, p.seed, obs.FirstDiff(a.Dump, b.Dump), script), script)
					return
				}
			}
		}
		if maxRunning.Load() >= 2 {
			sort.Strings(script)
			c.NonTrivial(ev.HashStr(script...))
			c.Label("batch_goroutines_overlapped")
		}
		if c.WantSample() {
			c.Sample(map[string]any{"G": g, "GOMAXPROCS": procs, "max_goroutines_in_flight": maxRunning.Load(), "script": script[:min(len(script), 8)]})
		}
	})
}
