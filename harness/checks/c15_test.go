package checks

import (
	"encoding/binary"
	"fmt"
	"runtime"
	"strings"
	"sync"
	"testing"

	of "github.com/contiv/libOpenflow/openflow13"
	"pgregory.net/rapid"
	"verifharness/ev"
	"verifharness/gen"
	"verifharness/spec"
)

// C15 — match-field registry (DESIGN.md section 10, C15).
//
//	TestC15      names x mask x spelling against the width table of harness/spec (OF1.3.5 table 11/12 +
//	             OVS meta-flow.h), lookup/mutate/lookup histories, header pack/unpack on sampled words
//	TestC15Words exhaustive pack/unpack over header words (all 2^32 in the thorough tier), sharded
//	TestC15Race  concurrent lookups and modifications of the results under the race detector

type c15hdr struct {
	class  uint16
	field  uint8
	length uint8
	mask   bool
}

func hdrOf(f *of.MatchField) c15hdr { return c15hdr{f.Class, f.Field, f.Length, f.HasMask} }

func spellings(name string) []string {
	mixed := []byte(strings.ToLower(name))
	for i := range mixed {
		if i%2 == 0 && mixed[i] >= 'a' && mixed[i] <= 'z' {
			mixed[i] -= 32
		}
	}
	return []string{name, strings.ToLower(name), string(mixed)}
}

// c15Expect returns what a lookup must yield according to the independent
// table, or ok=false when the name is not in the table.
func c15Expect(name string, masked bool) (c15hdr, spec.OXMInfo, bool) {
	cf, ok := spec.OXMByName[name]
	if !ok {
		return c15hdr{}, spec.OXMInfo{}, false
	}
	info, _ := spec.LookupOXM(uint16(cf[0]), uint8(cf[1]))
	w := info.Width
	if masked {
		w *= 2
	}
	return c15hdr{uint16(cf[0]), uint8(cf[1]), uint8(w), masked}, info, true
}

func scribble(f *of.MatchField) {
	f.Class ^= 0xa5a5
	f.Field ^= 0x7f
	f.Length ^= 0xff
	f.HasMask = !f.HasMask
	f.ExperimenterID = 0xdeadbeef
	f.Value = &of.Uint32Message{}
	f.Mask = &of.Uint32Message{}
}

func c15CheckLookup(c *ev.Collector, t ev.Fataler, name, spelled string, masked bool) (*of.MatchField, bool) {
	want, info, known := c15Expect(name, masked)
	var f *of.MatchField
	var err error
	if fr, msg := safeCall(func() { f, err = of.FindFieldHeaderByName(spelled, masked) }); fr != "" {
		c.Report(t, "C15|lookup|panic|"+fr, fmt.Sprintf("FindFieldHeaderByName(%q,%v): %s", spelled, masked, msg), spelled)
		return nil, false
	}
	if err != nil || f == nil {
		c.Report(t, "C15|lookup|not-found|"+name, fmt.Sprintf("registered name %q (spelled %q) not found: %v", name, spelled, err), spelled)
		return nil, false
	}
	if !known {
		// a name the transcribed OpenFlow / Open vSwitch table does not have: the oracle
		// cannot say what it should resolve to, so the case is counted, not judged
		c.Excluded("registered name outside the transcribed OXM/NXM table")
		return f, false
	}
	got := hdrOf(f)
	cs := fmt.Sprintf("FindFieldHeaderByName(%q, mask=%v) = class %#04x field %d length %d hasmask %v; table says class %#04x field %d width %d", spelled, masked,
		got.class, got.field, got.length, got.mask, want.class, want.field, info.Width)
	if got.class != want.class || got.field != want.field {
		c.Report(t, "C15|lookup|class-field|"+name, cs, spelled)
		return f, false
	}
	if got.mask != masked {
		c.Report(t, "C15|lookup|mask-flag|"+name, cs, spelled)
		return f, false
	}
	if info.Variable {
		// tun_metadata: variable width, at most info.Width (124) bytes, multiple of 4; the registered
		// length is the maximum a caller may use. Doubling must still fit the 8-bit length.
		base := int(got.length)
		if masked {
			base = int(got.length) / 2
		}
		if base < 1 || base > info.Width || (masked && int(got.length) != 2*base) || (masked && got.length == 0) {
			c.Report(t, "C15|lookup|width|tun_metadata", cs+" (variable-width field: 1..124 bytes; masked length must be twice the width and fit 8 bits)", spelled)
			return f, false
		}
		return f, true
	}
	if int(got.length) != int(want.length) {
		c.Report(t, "C15|lookup|width|"+name, cs, spelled)
		return f, false
	}
	return f, true
}

func TestC15(t *testing.T) {
	c := ev.For("C15")
	defer c.Done()
	c.Rule("(a) every name of the library's registry (obtained through the verif hook, so additions are covered) x mask {off,on} x spelling {upper,lower,mixed}: class, field number, " +
		"payload width (doubled with the mask flag when masked, must fit 8 bits) compared with the independent OXM/NXM table of harness/spec (OF1.3.5 tables 11/12, OVS meta-flow.h); " +
		"every table name of a class the registry covers must be registered with the same spelling or be absent (absence is not judged). " +
		"(b) rapid histories of lookup / modify-every-field-of-a-result / lookup again on random names: later lookups and the stored registry entry (hook) are unchanged. " +
		"(c) header words: UnmarshalHeader(be32(w)) then MarshalHeader == w and the unpacked fields equal the bit slices class=w>>16, field=(w>>9)&0x7f, mask=(w>>8)&1, length=w&0xff " +
		"(TestC15Words: exhaustive). Non-trivial: each (name, mask, spelling) triple once; each history with >=1 mutation between two lookups of the same name; each header word.")
	c.Assume("the width table (harness/spec/tables.go, DESIGN.md Appendix A.3) is my transcription of OF1.3.5 and meta-flow.h",
		"tun_metadata is variable-width (<=124 bytes): any registered width in 1..124 is accepted, but a masked lookup must return twice that width without wrapping")

	if !hooksAvailable {
		c.Label("hooks_unavailable")
		c.Assume("built without the verif tag (the library's hook files did not compile): registry names come from the transcribed table, stored entries and the unexported ofs_nbits helpers are reached through their public users only")
	}
	names := hookRegisteredNames()
	if shard0() {
		for _, name := range names {
			for _, masked := range []bool{false, true} {
				for si, sp := range spellings(name) {
					c.Eval()
					c.NonTrivial(ev.HashStr("name", name, fmt.Sprint(masked, si)))
					f, _ := c15CheckLookup(c, nil, name, sp, masked)
					if f != nil {
						// a result handed out is the caller's: modifying it must not show in the next lookup
						scribble(f)
					}
				}
			}
			c.Label("class=" + fmt.Sprintf("%#04x", func() uint16 { cl, _, _, _, _ := hookRegistryEntry(name); return cl }()))
		}
		c.LabelN("registered_names", int64(len(names)))
		// after all the scribbling the stored entries still equal the table
		for _, name := range names {
			c.Eval()
			cl, fi, ln, hm, _ := hookRegistryEntry(name)
			if want, info, ok := c15Expect(name, false); ok && !info.Variable && (cl != want.class || fi != want.field || ln != want.length || hm) {
				if !c.IsKnown("C15|lookup|width|" + name) {
					c.Report(nil, "C15|registry|entry-changed|"+name, fmt.Sprintf("stored entry of %s is now class %#x field %d length %d mask %v", name, cl, fi, ln, hm), name)
				}
			}
		}
		// unknown names are rejected, not invented
		for _, bad := range []string{"", "NXM_NX_REG16", "OXM_OF_NOPE", "nxm_nx_reg", " NXM_NX_REG0"} {
			c.Eval()
			if f, err := of.FindFieldHeaderByName(bad, false); err == nil {
				c.Report(nil, "C15|lookup|unknown-accepted", fmt.Sprintf("%q resolved to %+v", bad, f), bad)
			}
		}
		c.Exhaustive("registered names x mask x 3 spellings")
		c.FailIfViolations(t)
	}

	// (b) + (c) sampled
	checkRapid(t, c, func(rt *rapid.T) {
		c.Eval()
		if gen.Pick(rt, "field_with_payload", 4) == 0 {
			// the header of a complete field (a lookup result that a constructor has given its value and mask):
			// the packed word is the first four bytes of the field's own encoding, and unpacking it gives the
			// header back - whatever kind of payload object the field carries
			g := gen.New(rt, 400)
			f, _, fname := g.Field()
			if f.Class == 0xffff {
				return // experimenter class: the 32-bit word is followed by the experimenter id, packed separately
			}
			b, fr, _ := safeMarshal(f)
			if fr != "" || len(b) < 4 {
				return
			}
			var w uint32
			if pf, pm := safeCall(func() { w = f.MarshalHeader() }); pf != "" {
				c.Report(rt, "C15|header-of-field|panic|"+pf, pm, fname)
				return
			}
			c.NonTrivial(ev.HashStr("field-header", fname, fmt.Sprint(w)))
			c.Label("header_of_complete_field")
			if enc := binary.BigEndian.Uint32(b); enc != w {
				c.Report(rt, "C15|header-of-field|pack-differs-from-encoding", fmt.Sprintf("%s: MarshalHeader() = %#08x, the field's encoding starts with %#08x (%s)", fname, w, enc, hx(b)), fname)
				return
			}
			back := new(of.MatchField)
			hb := []byte{byte(w >> 24), byte(w >> 16), byte(w >> 8), byte(w)}
			if err := back.UnmarshalHeader(hb); err != nil || hdrOf(back) != hdrOf(f) {
				c.Report(rt, "C15|header-of-field|unpack-differs", fmt.Sprintf("%s: header %+v packs to %#08x, which unpacks to %+v (err %v)", fname, hdrOf(f), w, hdrOf(back), err), fname)
			}
			return
		}
		if gen.Pick(rt, "mode", 3) == 0 {
			w := rapid.OneOf(rapid.Uint32(), rapid.SampledFrom([]uint32{0, 0xffffffff, 0xffff0002, 0xffff00ff, 0x80000000, 0x0001ff00, 0x00010204, 0xffff5402})).Draw(rt, "word")
			c.NonTrivial(ev.HashStr("word", fmt.Sprint(w)))
			if sig, d := c15Word(w); sig != "" {
				c.Report(rt, sig, d, fmt.Sprintf("%#08x", w))
			}
			return
		}
		n := rapid.IntRange(2, 10).Draw(rt, "steps")
		first := map[string]c15hdr{}
		var hist []string
		mutated := map[string]bool{}
		nt := false
		for i := 0; i < n; i++ {
			name := names[gen.Pick(rt, "name", len(names))]
			masked := rapid.Bool().Draw(rt, "masked")
			sp := spellings(name)[gen.Pick(rt, "spelling", 3)]
			key := fmt.Sprint(name, masked)
			f, _ := c15CheckLookup(c, rt, name, sp, masked)
			if f == nil {
				return
			}
			h := hdrOf(f)
			hist = append(hist, fmt.Sprintf("lookup(%s,%v)", sp, masked))
			if prev, ok := first[key]; ok {
				if prev != h {
					c.Report(rt, "C15|lookup|not-independent", fmt.Sprintf("history %v: lookup now gives %+v, first gave %+v", hist, h, prev), hist)
					return
				}
				if mutated[key] {
					nt = true
				}
			} else {
				first[key] = h
			}
			if f.Value != nil || f.Mask != nil || f.ExperimenterID != 0 {
				c.Report(rt, "C15|lookup|not-independent", fmt.Sprintf("history %v: fresh lookup carries value/mask/experimenter from a previous result", hist), hist)
				return
			}
			if rapid.Bool().Draw(rt, "mutate") {
				scribble(f)
				mutated[key] = true
				hist = append(hist, "mutate")
			}
			if gen.Pick(rt, "use_constructors", 3) == 0 {
				x := rapid.Uint64().Draw(rt, "ctor_args")
				c15UseConstructors(x)
				for k := range first {
					mutated[k] = true // the constructors write into what their lookups returned
				}
				hist = append(hist, fmt.Sprintf("constructors(%#x)", x))
			}
		}
		for _, name := range names {
			cl, fi, ln, hm, _ := hookRegistryEntry(name)
			if want, info, ok := c15Expect(name, false); ok && (cl != want.class || fi != want.field || hm || (!info.Variable && ln != want.length) || (info.Variable && (ln < 1 || int(ln) > info.Width))) {
				c.Report(rt, "C15|registry|entry-changed", fmt.Sprintf("after history %v the stored entry of %s is class %#x field %d length %d mask %v", hist, name, cl, fi, ln, hm), hist)
				return
			}
		}
		if nt {
			c.NonTrivial(ev.HashStr(hist...))
			c.Label("history_with_mutation_between_lookups")
		}
		if c.WantSample() {
			c.Sample(map[string]any{"history": hist})
		}
	})
}

// c15Word checks one header word; returns a signature and detail on a breach.
var c15Payload = &of.Uint32Message{Data: 0xffff0000}

func c15Word(w uint32) (string, string) {
	var b [4]byte
	binary.BigEndian.PutUint32(b[:], w)
	// unpack into a fresh receiver and into one that held the complement of every bit before (a receiver that is
	// reused, e.g. the result of a masked lookup, must not keep anything of its previous header)
	for i, f := range []of.MatchField{{}, {Class: ^uint16(w >> 16), Field: ^uint8(w>>9) & 0x7f, HasMask: w>>8&1 == 0, Length: ^uint8(w)},
		// a receiver that carried a complete masked field before (what a masked constructor or a decoded masked TLV leaves)
		{Class: 1, Field: 3, HasMask: true, Length: 8, Value: c15Payload, Mask: c15Payload}} {
		recv := []string{"fresh", "reused", "reused-with-payload"}[i]
		if err := f.UnmarshalHeader(b[:]); err != nil {
			return "C15|UnmarshalHeader|error", fmt.Sprintf("word %#08x: %v", w, err)
		}
		if f.Class != uint16(w>>16) || f.Field != uint8(w>>9)&0x7f || f.HasMask != (w>>8&1 == 1) || f.Length != uint8(w) {
			return "C15|UnmarshalHeader|value-mismatch|" + recv, fmt.Sprintf("word %#08x unpacked (%s receiver) to class %#x field %d mask %v length %d", w, recv, f.Class, f.Field, f.HasMask, f.Length)
		}
		if got := f.MarshalHeader(); got != w {
			return "C15|MarshalHeader|not-inverse|" + recv, fmt.Sprintf("word %#08x -> %+v -> %#08x (%s receiver)", w, hdrOf(&f), got, recv)
		}
	}
	return "", ""
}

// c15UseConstructors calls the library's own users of the registry: the match-field constructors that look a header
// up by name and then fill it in. They must work on copies too.
func c15UseConstructors(x uint64) {
	idx := int(x % 8)
	data := []byte{byte(x), byte(x >> 8), byte(x >> 16), byte(x >> 24)}
	if x&1 == 0 {
		of.NewTunMetadataField(idx, data, nil)
	} else {
		of.NewTunMetadataField(idx, data, []byte{0xff, 0xff, 0, 0})
	}
	st := of.NewCTStates()
	st.SetNew()
	of.NewCTStateMatchField(st)
	of.NewCTZoneMatchField(uint16(x))
	of.NewCTMarkMatchField(uint32(x), nil)
	of.NewRegMatchField(int(x%16), uint32(x), of.NewNXRange(0, 15))
	of.NewMatchField("NXM_NX_REG"+fmt.Sprint(x%16), uint32(x&0xff), 4, 8)
	of.NewMatchField("NXM_NX_XXREG"+fmt.Sprint(x%4), uint64(x), 64, 64)
	// a switch's answer about its tunnel-metadata mapping passes through the decoder while lookups go on:
	// what a switch has mapped is its business, the registry keeps describing the fields
	r := &of.TLVTableReply{MaxSpace: 256, MaxFields: 64}
	for i := 0; i < 3; i++ {
		r.TlvMaps = append(r.TlvMaps, &of.TLVTableMap{OptClass: 0x0102, OptType: uint8(x >> 8), OptLength: uint8(4 + 4*((x>>uint(i))%30)), Index: uint16((x + uint64(i)) % 8)})
	}
	m := of.NewNXTVendorHeader(of.Type_TlvTableReply)
	m.VendorData = r
	if b, err := m.MarshalBinary(); err == nil {
		of.Parse(b)
	}
}

func TestC15Words(t *testing.T) {
	c := ev.For("C15")
	defer c.Done()
	shard, nsh := uint64(envInt("VERIF_SHARD", 0)), uint64(envInt("VERIF_NSHARDS", 1))
	var lo, hi uint64
	if ev.Thorough() {
		// all 2^32 words, contiguous slice per shard
		per := (uint64(1) << 32) / nsh
		lo, hi = shard*per, (shard+1)*per
		if shard == nsh-1 {
			hi = 1 << 32
		}
		for w := lo; w < hi; w++ {
			if sig, d := c15Word(uint32(w)); sig != "" {
				c.Report(nil, sig, d, fmt.Sprintf("%#08x", w))
				break
			}
		}
		c.Bulk(int64(hi - lo))
		if shard == 0 {
			c.Exhaustive("all 2^32 header words (union of the shards)")
		}
	} else {
		// quick: every low half (field, mask, length) under 16 classes incl. the four the library uses, plus every class with a fixed set of low halves
		classes := []uint32{0x0000, 0x0001, 0x8000, 0xffff, 0x0002, 0x7fff, 0x8001, 0xfffe, 0x00ff, 0xff00, 0x5555, 0xaaaa, 0x0100, 0x8080, 0x4f4e, 0x2320}
		var n int64
		for ci, cl := range classes {
			if uint64(ci)%nsh != shard {
				continue
			}
			for low := uint32(0); low < 1<<16; low++ {
				n++
				if sig, d := c15Word(cl<<16 | low); sig != "" {
					c.Report(nil, sig, d, nil)
					break
				}
			}
		}
		lows := []uint32{0x0000, 0x0001, 0x00ff, 0x0100, 0x01ff, 0xfe00, 0xffff, 0x0204, 0x5402, 0xd308}
		for cl := uint32(0); cl < 1<<16; cl++ {
			if uint64(cl)%nsh != shard || cl < 2 || cl == 0x8000 || cl == 0xffff {
				continue
			}
			for _, low := range lows {
				n++
				if sig, d := c15Word(cl<<16 | low); sig != "" {
					c.Report(nil, sig, d, nil)
					break
				}
			}
		}
		c.Bulk(n)
		c.Exhaustive("header words: all 2^16 low halves under 16 classes; 10 low halves under every class")
	}
	c.FailIfViolations(t)
}

// TestC15Race: G goroutines look names up and modify every field of what they
// get while others do the same; built with -race (a report is a violation,
// detected by the driver), and every result must still equal the table.
func TestC15Race(t *testing.T) {
	c := ev.For("C15")
	defer c.Done()
	names := hookRegisteredNames()
	rounds := ev.Scale(30, 400)
	seed := uint64(envInt("VERIF_SEED", 1))*7919 + uint64(envInt("VERIF_SHARD", 0))
	for r := 0; r < rounds; r++ {
		g := []int{2, 4, 8, 16}[r%4]
		runtime.GOMAXPROCS([]int{2, 4, 16, 1}[(r/4)%4])
		var wg sync.WaitGroup
		var mu sync.Mutex
		var bad []string
		start := make(chan struct{})
		for gi := 0; gi < g; gi++ {
			wg.Add(1)
			go func(gi int) {
				defer wg.Done()
				x := seed ^ uint64(r)*0x9e3779b97f4a7c15 ^ uint64(gi)<<32
				<-start
				for i := 0; i < 300; i++ {
					x = x*6364136223846793005 + 1442695040888963407
					// a few hot names so that goroutines collide on the same entry
					name := names[int(x>>33)%8*(len(names)/8)%len(names)]
					if x>>29&1 == 1 {
						// and every other name, so that each name's first lookup of either kind falls into the concurrent phase
						name = names[int(x>>35)%len(names)]
					}
					masked := x>>20&1 == 1
					// spelled in a case pattern drawn from the stream: many spellings are looked up for the first time
					// while other goroutines are inside the registry
					sp := []byte(name)
					for bi, pat := 0, x>>7; bi < len(sp); bi, pat = bi+1, pat>>1 {
						if pat&1 == 1 && sp[bi] >= 'A' && sp[bi] <= 'Z' {
							sp[bi] += 32
						}
						if bi == 40 {
							pat = x ^ x>>13
						}
					}
					if i%11 == 5 {
						// names nobody registered: refused, from any goroutine, without disturbing anyone
						if uf, uerr := of.FindFieldHeaderByName(fmt.Sprintf("NXM_NX_REG%d", 16+int(x>>40)%200), masked); uerr == nil {
							mu.Lock()
							bad = append(bad, fmt.Sprintf("goroutine %d: an unregistered name resolved to %+v", gi, hdrOf(uf)))
							mu.Unlock()
						}
					}
					f, err := of.FindFieldHeaderByName(string(sp), masked)
					if err != nil {
						continue
					}
					want, info, ok := c15Expect(name, masked)
					if ok && !info.Variable && !(c.IsKnown("C15|lookup|width|" + name)) && hdrOf(f) != want {
						mu.Lock()
						bad = append(bad, fmt.Sprintf("goroutine %d: lookup(%s,%v) = %+v want %+v", gi, name, masked, hdrOf(f), want))
						mu.Unlock()
					}
					scribble(f)
					if i%8 == 3 {
						c15UseConstructors(x)
					}
					if i%16 == 0 {
						runtime.Gosched()
					}
				}
			}(gi)
		}
		close(start)
		wg.Wait()
		c.Eval()
		c.NonTrivial(ev.HashStr("race-round", fmt.Sprint(seed, r, g)))
		c.Label(fmt.Sprintf("concurrent_goroutines=%d", g))
		if len(bad) > 0 {
			c.Report(t, "C15|lookup|cross-talk", strings.Join(bad[:min(len(bad), 5)], "; "), bad[0])
			return
		}
	}
	runtime.GOMAXPROCS(runtime.NumCPU())
}
