package checks

import (
	"encoding/binary"
	"fmt"
	"testing"

	of "github.com/contiv/libOpenflow/openflow13"
	"verifharness/ev"
)

// C16 — bit-range helpers: mask, offset and width agree for every range.
// Exhaustive over all 528 ranges 0 <= first <= last <= 31 and over all
// 1024 x 64 offset/width pairs (DESIGN.md section 10, C16).
func TestC16(t *testing.T) {
	c := ev.For("C16")
	defer c.Done()
	c.Rule("exhaustive enumeration: (a) all 528 ranges first<=last in 0..31 through NewNXRange and NewNXRangeByOfsNBits " +
		"(mask bits, ToOfsBits, GetOfs, GetNbits, agreement of both constructors, mask bytes of NewRegMatchField for reg0..15); " +
		"(b) all 1024x64 (offset,width) pairs through encodeOfsNbits/decodeOfs/decodeNbits and encodeOfsNbitsStartEnd. " +
		"Every tuple is distinct and counts as non-trivial (the domain has no trivial region).")
	c.Assume("hooks VerifEncodeOfsNbits* / VerifDecode* are plain wrappers of the unexported helpers (openflow13/verif_hooks.go)")

	if !hooksAvailable {
		c.Label("hooks_unavailable")
		c.Assume("built without the verif tag (the library's hook files did not compile): registry names come from the transcribed table, stored entries and the unexported ofs_nbits helpers are reached through their public users only")
	}
	for first := 0; first <= 31; first++ {
		for last := first; last <= 31; last++ {
			c.Eval()
			c.NonTrivial(ev.HashStr("range", fmt.Sprint(first), fmt.Sprint(last)))
			var want uint32
			for b := first; b <= last; b++ {
				want |= 1 << uint(b)
			}
			nbits := last - first + 1
			wantOfs := uint16(first)<<6 | uint16(nbits-1)
			r1 := of.NewNXRange(first, last)
			r2 := of.NewNXRangeByOfsNBits(first, nbits)
			cs := fmt.Sprintf("first=%d last=%d", first, last)
			for ci, r := range []*of.NXRange{r1, r2} {
				ctor := []string{"NewNXRange", "NewNXRangeByOfsNBits"}[ci]
				if got := r.ToUint32Mask(); got != want {
					c.Report(nil, fmt.Sprintf("C16|%s.ToUint32Mask|value-mismatch|range=%d..%d", ctor, first, last),
						fmt.Sprintf("%s: mask got %#08x want %#08x", cs, got, want), cs)
				}
				if got := r.ToOfsBits(); got != wantOfs {
					c.Report(nil, fmt.Sprintf("C16|%s.ToOfsBits|value-mismatch|range=%d..%d", ctor, first, last),
						fmt.Sprintf("%s: ofs_nbits got %#04x want %#04x", cs, got, wantOfs), cs)
				}
				if got := r.GetOfs(); got != uint16(first) {
					c.Report(nil, fmt.Sprintf("C16|%s.GetOfs|value-mismatch|range=%d..%d", ctor, first, last),
						fmt.Sprintf("%s: ofs got %d", cs, got), cs)
				}
				if got := r.GetNbits(); got != uint16(nbits) {
					c.Report(nil, fmt.Sprintf("C16|%s.GetNbits|value-mismatch|range=%d..%d", ctor, first, last),
						fmt.Sprintf("%s: nbits got %d want %d", cs, got, nbits), cs)
				}
			}
			// mask bytes of a register match field built from the range
			for reg := 0; reg < 16; reg++ {
				val := uint32(0xA5C3_0F96) & want
				f := of.NewRegMatchField(reg, val, r1)
				b, err := f.MarshalBinary()
				if err != nil || len(b) != 12 {
					c.Report(nil, fmt.Sprintf("C16|NewRegMatchField|len-mismatch|range=%d..%d", first, last),
						fmt.Sprintf("%s reg=%d: err=%v len=%d bytes=%x", cs, reg, err, len(b), b), cs)
					continue
				}
				hdr := binary.BigEndian.Uint32(b[0:4])
				wantHdr := uint32(1)<<16 | uint32(reg)<<9 | 1<<8 | 8
				if hdr != wantHdr || binary.BigEndian.Uint32(b[4:8]) != val || binary.BigEndian.Uint32(b[8:12]) != want {
					c.Report(nil, fmt.Sprintf("C16|NewRegMatchField|value-mismatch|range=%d..%d", first, last),
						fmt.Sprintf("%s reg=%d: bytes=%x want hdr=%08x val=%08x mask=%08x", cs, reg, b, wantHdr, val, want), cs)
				}
			}
			if c.WantSample() {
				c.Sample(map[string]any{"first": first, "last": last, "mask": fmt.Sprintf("%#08x", want), "ofs_nbits": fmt.Sprintf("%#04x", wantOfs)})
			}
		}
	}
	c.Exhaustive("528 ranges")

	for ofs := 0; ofs < 1024; ofs++ {
		for w := 1; w <= 64; w++ {
			c.Eval()
			c.NonTrivial(ev.HashStr("ofsw", fmt.Sprint(ofs), fmt.Sprint(w)))
			cs := fmt.Sprintf("ofs=%d nbits=%d", ofs, w)
			want := uint16(ofs)<<6 | uint16(w-1)
			enc := hookEncodeOfsNbits(uint16(ofs), uint16(w))
			if enc != want {
				c.Report(nil, "C16|encodeOfsNbits|value-mismatch", fmt.Sprintf("%s: got %#04x want %#04x", cs, enc, want), cs)
			}
			if got := hookDecodeOfs(want); got != uint16(ofs) {
				c.Report(nil, "C16|decodeOfs|value-mismatch", fmt.Sprintf("%s: got %d", cs, got), cs)
			}
			if got := hookDecodeNbits(want); got != uint16(w) {
				c.Report(nil, "C16|decodeNbits|value-mismatch", fmt.Sprintf("%s: got %d", cs, got), cs)
			}
			// first/last form (only meaningful while last fits 16 bits, which it always does here)
			if got := hookEncodeOfsNbitsStartEnd(uint16(ofs), uint16(ofs+w-1)); got != want {
				c.Report(nil, "C16|encodeOfsNbitsStartEnd|value-mismatch", fmt.Sprintf("%s: got %#04x want %#04x", cs, got, want), cs)
			}
			// the same pair through the public range type, both constructors (sub-fields of wide fields such as
			// tun_metadata or xxreg lie far above bit 31; the mask helper is the only part that is 32-bit)
			for ci, r := range []*of.NXRange{of.NewNXRangeByOfsNBits(ofs, w), of.NewNXRange(ofs, ofs+w-1)} {
				ctor := []string{"NewNXRangeByOfsNBits", "NewNXRange"}[ci]
				if got := r.ToOfsBits(); got != want {
					c.Report(nil, "C16|"+ctor+".ToOfsBits|value-mismatch|wide", fmt.Sprintf("%s: got %#04x want %#04x", cs, got, want), cs)
				}
				if r.GetOfs() != uint16(ofs) || r.GetNbits() != uint16(w) {
					c.Report(nil, "C16|"+ctor+".GetOfs/GetNbits|value-mismatch|wide", fmt.Sprintf("%s: got ofs %d nbits %d", cs, r.GetOfs(), r.GetNbits()), cs)
				}
			}
		}
	}
	c.Exhaustive("65536 offset/width pairs")
	c.Exhaustive("ALL")
	c.FailIfViolations(t)
}
