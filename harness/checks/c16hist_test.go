package checks

import (
	"bytes"
	"encoding/binary"
	"fmt"
	"testing"

	of "github.com/contiv/libOpenflow/openflow13"
	"pgregory.net/rapid"
	"verifharness/ev"
	"verifharness/gen"
)

// C16 over histories: a range object is a value a caller keeps and uses many
// times - for several register matches, for merges of matches on one register
// (NewMulitiRegMatch), for ofs_nbits words. Whatever has been done with it and
// with the fields built from it, it keeps denoting the same bits.
//
// Model: a range is (first, last); a register match built from it is the 12
// bytes header | value | mask(first..last). A merge returns one field per
// register whose mask is the union of the merged masks (values of merged
// fields are not modelled); the fields handed to a merge are treated as
// consumed, every other field must keep encoding to the bytes it had when it
// was built.
func TestC16Histories(t *testing.T) {
	c := ev.For("C16")
	defer c.Done()
	c.Rule("rapid histories (3..24 steps) over a pool of 1..3 range objects: build a register match from a pooled range (reg 0..15), merge 2..4 live masked matches with NewMulitiRegMatch, " +
		"query a range (ToUint32Mask/ToOfsBits/GetOfs/GetNbits). Oracle: a new match carries exactly the range's mask; a merge returns one field per register with the union mask; " +
		"after every step each range still answers as when it was created and every field not handed to a merge still encodes to its original bytes. " +
		"Non-trivial: a range object is used again after a merge that involved a field built from it; distinct by hash of the step list.")
	checkRapid(t, c, func(rt *rapid.T) {
		c.Eval()
		type rng struct {
			first, last int
			r           *of.NXRange
			merged      bool // a field built from it went into a merge
		}
		type fld struct {
			f        *of.MatchField
			reg      int
			from     int // pool index
			mask     uint32
			want     []byte
			consumed bool
		}
		nr := rapid.IntRange(1, 3).Draw(rt, "ranges")
		pool := make([]*rng, nr)
		for i := range pool {
			first := rapid.IntRange(0, 31).Draw(rt, "first")
			last := rapid.IntRange(first, 31).Draw(rt, "last")
			p := &rng{first: first, last: last}
			if rapid.Bool().Draw(rt, "by_ofs_nbits") {
				p.r = of.NewNXRangeByOfsNBits(first, last-first+1)
			} else {
				p.r = of.NewNXRange(first, last)
			}
			pool[i] = p
		}
		maskOf := func(p *rng) uint32 {
			var m uint32
			for b := p.first; b <= p.last; b++ {
				m |= 1 << uint(b)
			}
			return m
		}
		var fields []*fld
		var steps []string
		reused := false
		fail := func(sig, detail string) {
			c.Report(rt, sig, detail+" :: steps "+fmt.Sprint(steps), map[string]any{"steps": steps})
		}
		invariant := func() bool {
			for i, p := range pool {
				want := maskOf(p)
				if got := p.r.ToUint32Mask(); got != want {
					fail("C16|history|ToUint32Mask", fmt.Sprintf("range %d (%d..%d) now answers mask %#08x, want %#08x", i, p.first, p.last, got, want))
					return false
				}
				wo := uint16(p.first)<<6 | uint16(p.last-p.first)
				if p.r.ToOfsBits() != wo || int(p.r.GetOfs()) != p.first || int(p.r.GetNbits()) != p.last-p.first+1 {
					fail("C16|history|ofs-nbits", fmt.Sprintf("range %d (%d..%d) now answers ofs_nbits %#04x ofs %d nbits %d", i, p.first, p.last, p.r.ToOfsBits(), p.r.GetOfs(), p.r.GetNbits()))
					return false
				}
			}
			for i, f := range fields {
				if f.consumed {
					continue
				}
				b, _, _ := safeMarshal(f.f)
				if !bytes.Equal(b, f.want) {
					fail("C16|history|field-changed", fmt.Sprintf("field %d (reg%d from range %d, not handed to any merge) now encodes to %x, was %x", i, f.reg, f.from, b, f.want))
					return false
				}
			}
			return true
		}
		n := rapid.IntRange(3, 24).Draw(rt, "steps")
		for s := 0; s < n; s++ {
			switch gen.Pick(rt, "step", 3) {
			case 0, 1: // build
				pi := gen.Pick(rt, "range", nr)
				p := pool[pi]
				reg := gen.Pick(rt, "reg", 16)
				m := maskOf(p)
				val := rapid.Uint32().Draw(rt, "val") & m
				var f *of.MatchField
				fr, msg := safeCall(func() { f = of.NewRegMatchField(reg, val, p.r) })
				steps = append(steps, fmt.Sprintf("f%d=reg%d(%#x, range%d %d..%d)", len(fields), reg, val, pi, p.first, p.last))
				if fr != "" {
					fail("C16|history|panic|"+fr, msg)
					return
				}
				want := make([]byte, 12)
				binary.BigEndian.PutUint32(want, uint32(1)<<16|uint32(reg)<<9|1<<8|8)
				binary.BigEndian.PutUint32(want[4:], val)
				binary.BigEndian.PutUint32(want[8:], m)
				b, _, _ := safeMarshal(f)
				if !bytes.Equal(b, want) {
					fail("C16|history|NewRegMatchField|value-mismatch", fmt.Sprintf("reg%d from range %d..%d encodes to %x, want %x", reg, p.first, p.last, b, want))
					return
				}
				if p.merged {
					reused = true
				}
				fields = append(fields, &fld{f: f, reg: reg, from: pi, mask: m, want: want})
			case 2: // merge
				var live []int
				for i, f := range fields {
					if !f.consumed {
						live = append(live, i)
					}
				}
				if len(live) < 2 {
					continue
				}
				k := rapid.IntRange(2, min(4, len(live))).Draw(rt, "merge_n")
				perm := rapid.Permutation(live).Draw(rt, "merge_which")[:k]
				args := make([]*of.MatchField, k)
				union := map[int]uint32{}
				for i, x := range perm {
					args[i] = fields[x].f
					union[fields[x].reg] |= fields[x].mask
					fields[x].consumed = true
					pool[fields[x].from].merged = true
				}
				var out []*of.MatchField
				fr, msg := safeCall(func() { out = of.NewMulitiRegMatch(args...) })
				steps = append(steps, fmt.Sprintf("merge(f%v)", perm))
				if fr != "" {
					fail("C16|history|merge-panic|"+fr, msg)
					return
				}
				if len(out) != len(union) {
					fail("C16|history|merge|count", fmt.Sprintf("%d fields for %d registers", len(out), len(union)))
					return
				}
				for _, o := range out {
					mm, ok := o.Mask.(*of.Uint32Message)
					if !ok || mm.Data != union[int(o.Field)] {
						fail("C16|history|merge|mask", fmt.Sprintf("merged reg%d has mask %+v, want the union %#08x", o.Field, o.Mask, union[int(o.Field)]))
						return
					}
				}
			}
			if !invariant() {
				return
			}
		}
		if reused {
			c.NonTrivial(ev.HashStr("c16hist", fmt.Sprint(steps)))
			c.Label("range_reused_after_merge")
		}
		if c.WantSample() {
			c.Sample(map[string]any{"steps": steps})
		}
	})
}
