package checks

import (
	"bytes"
	"fmt"
	"math/big"
	"net"
	"strings"
	"testing"

	of "github.com/contiv/libOpenflow/openflow13"
	"pgregory.net/rapid"
	"verifharness/ev"
	"verifharness/gen"
	"verifharness/spec"
)

// C17 — generic match-field builder against a math/big model (DESIGN.md 10, C17).

type nmfCase struct {
	name   string
	width  int      // bytes, from the independent table
	input  *big.Int // the value the caller means
	vtype  string   // Go type the value is passed as
	win    []int    // 0..4 window arguments
	class  string   // input class, decided by the model
	expErr bool
	value  *big.Int // expected placed value (when !expErr)
	mask   *big.Int // expected mask (nil = unmasked; for the 1-argument form only the weak clauses are judged)
}

func (k nmfCase) String() string {
	return fmt.Sprintf("NewMatchField(%q, %s(%#x), window=%v) [width %dB, %s]", k.name, k.vtype, k.input, k.win, k.width, k.class)
}

func ones(w, off int) *big.Int {
	m := new(big.Int).Lsh(big.NewInt(1), uint(w))
	m.Sub(m, big.NewInt(1))
	return m.Lsh(m, uint(off))
}

// nmfModel decides in/out of range and the expected value/mask from the
// documented calling conventions.
func nmfModel(k *nmfCase) {
	bits := 8 * k.width
	k.expErr, k.value, k.mask = false, nil, nil
	switch {
	case len(k.win) > 3:
		k.class, k.expErr = "too-many-window-args", true
		return
	case (len(k.win) >= 1 && k.win[0] < 0) || (len(k.win) >= 2 && k.win[1] < 0):
		k.class, k.expErr = "negative-window", true
		return
	case k.input.Sign() < 0:
		k.class, k.expErr = "negative-value", true
		return
	}
	switch len(k.win) {
	case 0:
		if k.input.BitLen() > bits {
			k.class, k.expErr = "value-wider-than-field", true
			return
		}
		k.class, k.value = "in-range", new(big.Int).Set(k.input)
	case 1:
		off := k.win[0]
		if off+k.input.BitLen() > bits {
			k.class, k.expErr = "window-beyond-field", true
			return
		}
		// documented: "with one argument start=mask[0], width=len(data)"
		k.class, k.value, k.mask = "in-range", new(big.Int).Lsh(k.input, uint(off)), ones(k.input.BitLen(), off)
	default:
		off, w := k.win[0], k.win[1]
		shift := len(k.win) == 2 || k.win[2] == 1
		if off+w > bits {
			k.class, k.expErr = "window-beyond-field", true
			return
		}
		v := new(big.Int).Set(k.input)
		if shift {
			v.Lsh(v, uint(off))
		}
		m := ones(w, off)
		if new(big.Int).AndNot(v, m).Sign() != 0 {
			k.class, k.expErr = "value-outside-window", true
			return
		}
		k.class, k.value, k.mask = "in-range", v, m
	}
}

func fitsU(v *big.Int, bits int) bool { return v.Sign() >= 0 && v.BitLen() <= bits }
func fitsS(v *big.Int, bits int) bool {
	if v.Sign() >= 0 {
		return v.BitLen() <= bits-1
	}
	return new(big.Int).Add(v, big.NewInt(1)).BitLen() <= bits-1
}

var nmfTypes = []string{"uint8", "uint16", "uint32", "uint64", "uint", "int8", "int16", "int32", "int64", "int", "*big.Int", "[]byte", "net.IP", "net.HardwareAddr",
	"named uint32", "named int16", "named uint8"}

// integer types of the caller's own: the builder's type parameter admits every type whose underlying type is an
// integer (constraints.Integer is a union of ~int, ~uint32, ...), e.g. a controller's `type RegMark uint32`
type (
	c17RegMark uint32
	c17Delta   int16
	c17Proto   uint8
)

func typeHolds(ty string, v *big.Int, width int) bool {
	switch ty {
	case "uint8", "named uint8":
		return fitsU(v, 8)
	case "uint16":
		return fitsU(v, 16)
	case "uint32", "named uint32":
		return fitsU(v, 32)
	case "uint64", "uint":
		return fitsU(v, 64)
	case "int8":
		return fitsS(v, 8)
	case "int16", "named int16":
		return fitsS(v, 16)
	case "int32":
		return fitsS(v, 32)
	case "int64", "int":
		return fitsS(v, 64)
	case "*big.Int":
		return true
	case "[]byte":
		return v.Sign() >= 0
	case "net.IP":
		return v.Sign() >= 0 && v.BitLen() <= 128
	case "net.HardwareAddr":
		return v.Sign() >= 0 && v.BitLen() <= 48
	}
	return false
}

func padTo(b []byte, n int) []byte {
	if len(b) >= n {
		return b
	}
	return append(make([]byte, n-len(b)), b...)
}

// nmfCall invokes the generic builder with the value passed as k.vtype and the
// window as int arguments; it returns the argument object for the
// "caller's arguments are left unmodified" clause.
func nmfCall(k nmfCase) (f *of.MatchField, err error, argBefore, argAfter string) {
	v := k.input
	// a byte-slice argument is the caller's buffer: once the builder has returned, the caller fills it with the
	// next address (one scratch buffer per loop); the field built from it is judged afterwards
	reuse := func(b []byte) {
		for i := range b {
			b[i] = 0xEE ^ byte(i)
		}
	}
	// the window arguments are spread from a slice that has spare capacity behind them, as a caller
	// holding (offset, width, mode) triples and passing the first one or two does: nothing of that
	// slice, the spare part included, is the builder's to write
	full := append(append(make([]int, 0, len(k.win)+3), k.win...), 0x5a5a, 0x5a5b, 0x5a5c)
	w := full[:len(k.win)]
	winBefore := fmt.Sprint(full)
	defer func() {
		argBefore += " window-args " + winBefore
		argAfter += " window-args " + fmt.Sprint(full)
	}()
	// field names are case-insensitive: the spelling varies with the case
	name := k.name
	switch (v.BitLen() + len(k.win)) % 3 {
	case 1:
		name = strings.ToLower(name)
	case 2:
		b := []byte(name)
		for i := range b {
			if i%2 == 1 && b[i] >= 'A' && b[i] <= 'Z' {
				b[i] += 32
			}
		}
		name = string(b)
	}
	k.name = name
	// the window's own integer type is the caller's choice too: when the values fit, a share of the
	// calls passes them as uint8 or uint16 (offset + width computed in that type can wrap at 256)
	if len(w) > 0 && (k.vtype == "uint64" || k.vtype == "uint32") {
		fits := func(max int) bool {
			for _, x := range w {
				if x < 0 || x > max {
					return false
				}
			}
			return true
		}
		switch {
		case k.vtype == "uint64" && fits(255):
			n := make([]uint8, len(w))
			for i, x := range w {
				n[i] = uint8(x)
			}
			f, err = of.NewMatchField(k.name, v.Uint64(), n...)
			return
		case k.vtype == "uint32" && fits(65535):
			n := make([]uint16, len(w))
			for i, x := range w {
				n[i] = uint16(x)
			}
			f, err = of.NewMatchField(k.name, uint32(v.Uint64()), n...)
			return
		}
	}
	switch k.vtype {
	case "named uint32":
		f, err = of.NewMatchField(k.name, c17RegMark(v.Uint64()), w...)
	case "named int16":
		f, err = of.NewMatchField(k.name, c17Delta(v.Int64()), w...)
	case "named uint8":
		f, err = of.NewMatchField(k.name, c17Proto(v.Uint64()), w...)
	case "uint8":
		f, err = of.NewMatchField(k.name, uint8(v.Uint64()), w...)
	case "uint16":
		f, err = of.NewMatchField(k.name, uint16(v.Uint64()), w...)
	case "uint32":
		f, err = of.NewMatchField(k.name, uint32(v.Uint64()), w...)
	case "uint64":
		f, err = of.NewMatchField(k.name, v.Uint64(), w...)
	case "uint":
		f, err = of.NewMatchField(k.name, uint(v.Uint64()), w...)
	case "int8":
		f, err = of.NewMatchField(k.name, int8(v.Int64()), w...)
	case "int16":
		f, err = of.NewMatchField(k.name, int16(v.Int64()), w...)
	case "int32":
		f, err = of.NewMatchField(k.name, int32(v.Int64()), w...)
	case "int64":
		f, err = of.NewMatchField(k.name, v.Int64(), w...)
	case "int":
		f, err = of.NewMatchField(k.name, int(v.Int64()), w...)
	case "*big.Int":
		arg := new(big.Int).Set(v)
		argBefore = arg.Text(16)
		f, err = of.NewMatchField(k.name, arg, w...)
		argAfter = arg.Text(16)
	case "[]byte":
		arg := append([]byte{}, v.Bytes()...)
		argBefore = fmt.Sprintf("%x", arg)
		f, err = of.NewMatchField(k.name, arg, w...)
		argAfter = fmt.Sprintf("%x", arg)
		reuse(arg)
	case "net.IP":
		n := 4
		if v.BitLen() > 32 || k.width == 16 {
			n = 16
		}
		arg := net.IP(padTo(v.Bytes(), n))
		argBefore = fmt.Sprintf("%x", []byte(arg))
		f, err = of.NewMatchField(k.name, arg, w...)
		argAfter = fmt.Sprintf("%x", []byte(arg))
		reuse(arg)
	case "net.HardwareAddr":
		arg := net.HardwareAddr(padTo(v.Bytes(), 6))
		argBefore = fmt.Sprintf("%x", []byte(arg))
		f, err = of.NewMatchField(k.name, arg, w...)
		argAfter = fmt.Sprintf("%x", []byte(arg))
		reuse(arg)
	default:
		panic("bad vtype " + k.vtype)
	}
	return
}

func convention(k nmfCase) string {
	switch len(k.win) {
	case 0:
		return "no-window"
	case 1:
		return "offset-only"
	case 2:
		return "offset-width"
	case 3:
		return fmt.Sprintf("offset-width-shift%d", k.win[2])
	}
	return "4-args"
}

// nmfJudge runs one case; returns signature and detail of the first breach.
func nmfJudge(k nmfCase) (sig, detail string) {
	var f *of.MatchField
	var err error
	var a0, a1 string
	fr, msg := safeCall(func() { f, err, a0, a1 = nmfCall(k) })
	if fr == "" && err == nil && f != nil {
		safeCall(func() { c17Held.hold(f, k.String()) })
	}
	conv := convention(k)
	if fr != "" {
		return "C17|" + conv + "|" + k.class + "|panic", fmt.Sprintf("%s panicked in %s: %s", k, fr, msg)
	}
	if a0 != a1 {
		return "C17|" + conv + "|" + k.class + "|argument-modified|" + k.vtype, fmt.Sprintf("%s changed the caller's argument from %s to %s", k, a0, a1)
	}
	if k.expErr {
		if err == nil {
			var vb, mb []byte
			if f != nil && f.Value != nil {
				vb, _ = f.Value.MarshalBinary()
			}
			if f != nil && f.Mask != nil {
				mb, _ = f.Mask.MarshalBinary()
			}
			return "C17|" + conv + "|" + k.class + "|accepted", fmt.Sprintf("%s returned no error (value %x mask %x)", k, vb, mb)
		}
		return "", ""
	}
	if err != nil {
		return "C17|" + conv + "|in-range|rejected", fmt.Sprintf("%s returned error %v", k, err)
	}
	if f == nil || f.Value == nil {
		return "C17|" + conv + "|in-range|nil", fmt.Sprintf("%s returned a nil field/value", k)
	}
	cf := spec.OXMByName[k.name]
	masked := len(k.win) > 0
	wantLen := k.width
	if masked {
		wantLen *= 2
	}
	if int(f.Class) != cf[0] || int(f.Field) != cf[1] || f.HasMask != masked || int(f.Length) != wantLen {
		return "C17|" + conv + "|in-range|header", fmt.Sprintf("%s: header class %#x field %d mask %v length %d, want %#x %d %v %d", k, f.Class, f.Field, f.HasMask, f.Length, cf[0], cf[1], masked, wantLen)
	}
	vb, e1 := f.Value.MarshalBinary()
	if e1 != nil || len(vb) != k.width || int(f.Value.Len()) != k.width {
		return "C17|" + conv + "|in-range|value-size", fmt.Sprintf("%s: value is %d bytes (Len %d), field width %d", k, len(vb), f.Value.Len(), k.width)
	}
	gotV := new(big.Int).SetBytes(vb)
	if gotV.Cmp(k.value) != 0 {
		return "C17|" + conv + "|in-range|value-misplaced", fmt.Sprintf("%s: value bytes %x, want %x", k, vb, padTo(k.value.Bytes(), k.width))
	}
	if !masked {
		if f.Mask != nil {
			return "C17|" + conv + "|in-range|unexpected-mask", fmt.Sprintf("%s: mask present without a window", k)
		}
	} else {
		if f.Mask == nil {
			return "C17|" + conv + "|in-range|mask-missing", fmt.Sprintf("%s: no mask", k)
		}
		mb, e2 := f.Mask.MarshalBinary()
		if e2 != nil || len(mb) != k.width {
			return "C17|" + conv + "|in-range|mask-size", fmt.Sprintf("%s: mask is %d bytes, field width %d", k, len(mb), k.width)
		}
		gotM := new(big.Int).SetBytes(mb)
		if new(big.Int).AndNot(gotV, gotM).Sign() != 0 {
			return "C17|" + conv + "|in-range|value-outside-mask", fmt.Sprintf("%s: value %x has bits outside mask %x", k, vb, mb)
		}
		if k.mask != nil {
			if gotM.Cmp(k.mask) != 0 {
				return "C17|" + conv + "|in-range|mask-misplaced", fmt.Sprintf("%s: mask bytes %x, want %x", k, mb, padTo(k.mask.Bytes(), k.width))
			}
		} else {
			// offset-only form: the width is derived by the code; judge only that the mask is one contiguous run starting at the offset
			off := k.win[0]
			if gotM.Sign() != 0 {
				tz := int(gotM.TrailingZeroBits())
				run := new(big.Int).Rsh(gotM, uint(tz))
				run.Add(run, big.NewInt(1))
				if tz != off || run.BitLen() == 0 || new(big.Int).And(run, new(big.Int).Sub(run, big.NewInt(1))).Sign() != 0 {
					return "C17|" + conv + "|in-range|mask-not-contiguous-from-offset", fmt.Sprintf("%s: mask %x", k, mb)
				}
			} else if gotV.Sign() != 0 {
				return "C17|" + conv + "|in-range|value-outside-mask", fmt.Sprintf("%s: empty mask with value %x", k, vb)
			}
		}
	}
	// 32-bit registers: same bytes as the dedicated constructor
	if strings.HasPrefix(k.name, "NXM_NX_REG") && k.width == 4 && len(k.win) != 1 {
		var idx int
		fmt.Sscanf(k.name, "NXM_NX_REG%d", &idx)
		var ref *of.MatchField
		if masked {
			ref = of.NewRegMatchField(idx, uint32(k.value.Uint64()), of.NewNXRangeByOfsNBits(k.win[0], k.win[1]))
		} else {
			ref = of.NewRegMatchField(idx, uint32(k.value.Uint64()), nil)
		}
		rb, e3 := ref.MarshalBinary()
		gb, e4 := f.MarshalBinary()
		if e3 != nil || e4 != nil || !bytes.Equal(rb, gb) {
			return "C17|" + conv + "|in-range|differs-from-NewRegMatchField", fmt.Sprintf("%s encodes %x, NewRegMatchField(%d, %#x, ofs %d nbits %d) encodes %x", k, gb, idx, k.value, k.win[0], k.win[1], rb)
		}
	}
	return "", ""
}

func c17Fields() (names []string, width map[string]int) {
	width = map[string]int{}
	for _, n := range hookRegisteredNames() {
		cf, ok := spec.OXMByName[n]
		if !ok {
			continue
		}
		info, _ := spec.LookupOXM(uint16(cf[0]), uint8(cf[1]))
		// (tun_metadata0..7 are registered with their maximum width, 124 bytes, and the builder treats them like
		// any other field of that width: values above 2^224 and windows near bit 991 exist only here)
		names = append(names, n)
		width[n] = info.Width
	}
	return
}

func windowValues(w int) []*big.Int {
	top := new(big.Int).Lsh(big.NewInt(1), uint(w-1))
	all := ones(w, 0)
	alt := new(big.Int)
	for i := 0; i < w; i += 2 {
		alt.SetBit(alt, i, 1)
	}
	return []*big.Int{big.NewInt(0), big.NewInt(1), all, top, alt}
}

var c17Held = newHeldRing(400)
var c17Seen int

func c17Record(c *ev.Collector, t ev.Fataler, k nmfCase) {
	c.Eval()
	if c17Seen++; c17Seen%16 == 0 && !c17Held.check(c, t, "C17") {
		return
	}
	sig, d := nmfJudge(k)
	nt := k.class != "in-range"
	if len(k.win) >= 2 && (k.win[0]%8 != 0 || k.win[1]%8 != 0) {
		nt = true
	}
	if k.class == "in-range" && len(k.win) >= 2 && k.win[1] > 0 && k.value.Bit(k.win[0]+k.win[1]-1) == 1 {
		nt = true
	}
	if nt {
		c.NonTrivial(ev.HashStr(k.name, k.vtype, k.input.Text(16), fmt.Sprint(k.win)))
	}
	if sig != "" {
		c.Report(t, sig, d, k.String())
	}
}

func TestC17(t *testing.T) {
	c := ev.For("C17")
	defer c.Done()
	c.Rule("cases = registered fixed-width field (all widths 1,2,3,4,6,8,16 B; tun_metadata excluded as variable-width) x calling convention (no window | offset | offset,width | offset,width,shift in {0,1} | " +
		"4 arguments) x value passed as every Go integer type that holds it, *big.Int, []byte, net.IP, net.HardwareAddr. Shard 0 enumerates ALL 528 windows of every 32-bit register x 5 boundary values of the window " +
		"(0, 1, 2^w-1, 2^(w-1), alternating) x 3 conventions; rapid draws windows/values for all fields incl. 48/64/128-bit ones and the out-of-range classes (value wider than field or window, window beyond the field " +
		"(bounded: <= field+4096 bits), negative value, negative offset/width, too many arguments, unknown name). Oracle: math/big model of the documented conventions: in range => no error, registry header with mask flag, " +
		"value = input<<offset (input itself when shift==0), mask = (2^w-1)<<offset, value&^mask==0, both exactly width bytes, registers byte-equal to NewRegMatchField; out of range => error, no panic, no silent acceptance; " +
		"the caller's *big.Int / slice is unchanged. For the offset-only form the window is as wide as the data (the builder's doc comment: start=mask[0], width=len(data)). " +
		"Non-trivial: window not byte-aligned, or top bit of the window set, or an out-of-range input; distinct by (name,type,value,window).")
	c.Assume("widths come from the independent table of harness/spec; window arguments are passed as int, or as uint8 / uint16 when they fit and the value is a uint64 / uint32", "shift argument only 0 or 1 (the two documented meanings)")

	names, width := c17Fields()
	if shard0() {
		for reg := 0; reg < 16; reg++ {
			name := fmt.Sprintf("NXM_NX_REG%d", reg)
			for off := 0; off < 32; off++ {
				for w := 1; off+w <= 32; w++ {
					for vi, v := range windowValues(w) {
						for conv := 0; conv < 3; conv++ {
							k := nmfCase{name: name, width: 4, input: v, vtype: []string{"uint32", "*big.Int", "uint64", "[]byte", "int64"}[(vi+conv+reg)%5]}
							switch conv {
							case 0:
								k.win = []int{off, w}
							case 1:
								k.win = []int{off, w, 1}
							case 2:
								k.win = []int{off, w, 0}
								k.input = new(big.Int).Lsh(v, uint(off))
							}
							if !typeHolds(k.vtype, k.input, 4) {
								k.vtype = "*big.Int"
							}
							nmfModel(&k)
							c17Record(c, nil, k)
						}
					}
				}
			}
		}
		c.Exhaustive("all 528 windows x 16 32-bit registers x 5 boundary values x 3 conventions")
		c.FailIfViolations(t)
	}

	checkRapid(t, c, func(rt *rapid.T) {
		name := names[gen.Pick(rt, "field", len(names))]
		wd := width[name]
		bits := 8 * wd
		k := nmfCase{name: name, width: wd}
		mode := gen.Pick(rt, "mode", 10)
		nwin := gen.Pick(rt, "nwin", 4) // 0..3
		var off, w int
		if nwin > 0 {
			off = rapid.IntRange(0, bits-1).Draw(rt, "off")
			w = rapid.IntRange(1, bits-off).Draw(rt, "w")
		} else {
			w = bits
		}
		// an explicit width of zero: legal for the value 0 (a field with an empty mask), an error for anything else
		zeroWidth := nwin >= 2 && gen.Pick(rt, "zero_width", 12) == 0
		if zeroWidth {
			w = 0
		}
		// value inside the window
		var v *big.Int
		switch vc := gen.Pick(rt, "vclass", 6); {
		case zeroWidth:
			v = big.NewInt(int64(gen.Pick(rt, "zero_width_value", 4)))
		case vc <= 4:
			v = windowValues(w)[gen.Pick(rt, "bv", 5)]
		default:
			v = new(big.Int).SetBytes(rapid.SliceOfN(rapid.Byte(), (w+7)/8, (w+7)/8).Draw(rt, "vbytes"))
			v.And(v, ones(w, 0))
		}
		k.input = new(big.Int).Set(v)
		switch nwin {
		case 1:
			k.win = []int{off}
		case 2:
			k.win = []int{off, w}
		case 3:
			sh := gen.Pick(rt, "shift", 2)
			k.win = []int{off, w, sh}
			if sh == 0 {
				k.input.Lsh(k.input, uint(off))
			}
		}
		// out-of-range perturbations
		wrapType := ""
		switch mode {
		case 0: // value wider than the window / field
			extra := rapid.IntRange(1, 70).Draw(rt, "extra_bits")
			k.input.SetBit(k.input, w+extra-1+map[bool]int{true: off, false: 0}[nwin == 3 && k.win[2] == 0], 1)
		case 1: // window beyond the field
			if nwin >= 2 && gen.Pick(rt, "wrap_sum", 3) == 0 {
				// offset + width is exactly 2^8 or 2^16: beyond every fixed-width field, and zero when
				// the sum is computed in the window's own uint8 / uint16 type (nmfCall passes it so)
				tot := []int{256, 65536}[gen.Pick(rt, "wrap_total", 2)]
				a := rapid.IntRange(1, tot-1).Draw(rt, "wrap_off")
				// boundary splits: each argument alone as small as it can be (half the total), or one of
				// them exactly the field's width
				switch gen.Pick(rt, "wrap_split", 4) {
				case 0:
					a = tot / 2
				case 1:
					if bits < tot {
						a = bits
					}
				case 2:
					if bits < tot {
						a = tot - bits
					}
				}
				k.win[0], k.win[1] = a, tot-a
				k.input.SetInt64(1)
				wrapType = map[int]string{256: "uint64", 65536: "uint32"}[tot]
			} else if nwin >= 2 {
				k.win[gen.Pick(rt, "which", 2)] += rapid.IntRange(bits-off-w+1, 4096).Draw(rt, "beyond")
			} else if nwin == 1 {
				k.win[0] = rapid.IntRange(bits-k.input.BitLen()+1, bits+4096).Draw(rt, "beyond1")
			}
		case 2: // negative value
			if k.input.Sign() == 0 {
				k.input.SetInt64(1)
			}
			k.input.Neg(k.input)
		case 3: // negative window argument
			if nwin >= 1 {
				i := gen.Pick(rt, "negwhich", min(nwin, 2))
				k.win[i] = -rapid.IntRange(1, 4096).Draw(rt, "neg")
			}
		case 5, 6: // no-shift convention: a value bit below the window
			if nwin == 3 && k.win[2] == 0 && off > 0 {
				k.input.SetBit(k.input, rapid.IntRange(0, off-1).Draw(rt, "low_bit"), 1)
			}
		case 4:
			if gen.Pick(rt, "four", 3) == 0 {
				k.win = []int{off, w, 1, 0}
			}
		}
		// type
		var tys []string
		for _, ty := range nmfTypes {
			if typeHolds(ty, k.input, wd) {
				tys = append(tys, ty)
			}
		}
		k.vtype = tys[gen.Pick(rt, "type", len(tys))]
		if wrapType != "" {
			k.vtype = wrapType
			c.Label("window-sum-wraps-in-" + map[string]string{"uint64": "uint8", "uint32": "uint16"}[wrapType])
		}
		nmfModel(&k)
		c.Label("class=" + k.class)
		c.Label("convention=" + convention(k))
		c.Label(fmt.Sprintf("width=%dB", wd))
		c.Label("type=" + k.vtype)
		if c.WantSample() {
			c.Sample(k.String())
		}
		c17Record(c, rt, k)
		// unknown names are reported as errors
		if mode == 9 {
			bad := name + "_X"
			var err error
			fr, msg := safeCall(func() { _, err = of.NewMatchField[uint8, int](bad, uint8(1)) })
			if fr != "" || err == nil {
				c.Report(rt, "C17|unknown-name|accepted-or-panic", fmt.Sprintf("NewMatchField(%q): err=%v panic=%s %s", bad, err, fr, msg), bad)
			}
		}
	})
}
