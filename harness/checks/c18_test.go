package checks

import (
	"encoding/binary"
	"fmt"
	"strings"
	"testing"

	of "github.com/contiv/libOpenflow/openflow13"
	"pgregory.net/rapid"
	"verifharness/ev"
)

// C18 — connection-tracking state builder reflects the last call per flag.
// Reference model: eight tri-state flags (untouched / set / unset).

var ctFlagNames = []string{"New", "Est", "Rel", "Rpl", "Inv", "Trk", "SNAT", "DNAT"}

// op index: 2*flag + (0 = Set, 1 = Unset)
func ctApply(s *of.CTStates, op int) {
	switch op {
	case 0:
		s.SetNew()
	case 1:
		s.UnsetNew()
	case 2:
		s.SetEst()
	case 3:
		s.UnsetEst()
	case 4:
		s.SetRel()
	case 5:
		s.UnsetRel()
	case 6:
		s.SetRpl()
	case 7:
		s.UnsetRpl()
	case 8:
		s.SetInv()
	case 9:
		s.UnsetInv()
	case 10:
		s.SetTrk()
	case 11:
		s.UnsetTrk()
	case 12:
		s.SetSNAT()
	case 13:
		s.UnsetSNAT()
	case 14:
		s.SetDNAT()
	case 15:
		s.UnsetDNAT()
	}
}

func ctOpName(op int) string {
	return []string{"Set", "Unset"}[op&1] + ctFlagNames[op>>1]
}

type ctModel [8]int8 // 0 untouched, 1 set, 2 unset

func (m *ctModel) apply(op int) { m[op>>1] = int8(1 + op&1) }
func (m ctModel) valueMask() (v, k uint32) {
	for i, s := range m {
		if s != 0 {
			k |= 1 << uint(i)
		}
		if s == 1 {
			v |= 1 << uint(i)
		}
	}
	return
}

var c18Held = newHeldRing(400)

func ctObserve(s *of.CTStates) (hdr, val, mask uint32, err error) {
	f := of.NewCTStateMatchField(s)
	defer func() {
		if err == nil {
			c18Held.hold(f, fmt.Sprintf("NewCTStateMatchField (value %08x mask %08x)", val, mask))
		}
	}()
	b, e := f.MarshalBinary()
	if e != nil {
		return 0, 0, 0, e
	}
	if len(b) != 12 {
		return 0, 0, 0, fmt.Errorf("ct_state field encodes to %d bytes (%x), want 12", len(b), b)
	}
	hdr, val, mask = binary.BigEndian.Uint32(b), binary.BigEndian.Uint32(b[4:]), binary.BigEndian.Uint32(b[8:])
	for i := range b {
		b[i] ^= 0xff // the encoding is the caller's: overwriting it changes nothing for anyone else
	}
	return hdr, val, mask, nil
}

func ctSeqString(ops []int) string {
	n := make([]string, len(ops))
	for i, o := range ops {
		n[i] = ctOpName(o)
	}
	return strings.Join(n, ",")
}

// checkSeq runs ops on a fresh builder and compares with the model after the
// whole sequence (and, when every is set, after every step).
func ctCheckSeq(c *ev.Collector, t ev.Fataler, ops []int, every bool) {
	s := of.NewCTStates()
	var m ctModel
	for i, op := range ops {
		ctApply(s, op)
		m.apply(op)
		if (len(ops)+i+op)%7 == 0 {
			// other users of the same field look its header up unmasked (a reg-move or learn-spec source,
			// a set-field target) while matches are being built; the builder's result does not depend on them
			if f, err := of.FindFieldHeaderByName("NXM_NX_CT_STATE", false); err == nil && f != nil {
				f.Length, f.HasMask = 0, true // the result is the caller's
			}
			of.FindFieldHeaderByName("nxm_nx_ct_state", i%2 == 0)
		}
		if !every && i != len(ops)-1 {
			continue
		}
		hdr, v, k, err := ctObserve(s)
		wv, wk := m.valueMask()
		const wantHdr = uint32(1)<<16 | 105<<9 | 1<<8 | 8
		if err != nil || hdr != wantHdr {
			c.Report(t, "C18|NewCTStateMatchField|header", fmt.Sprintf("ops=%s: err=%v hdr=%08x want %08x", ctSeqString(ops[:i+1]), err, hdr, wantHdr), ctSeqString(ops[:i+1]))
			return
		}
		if v != wv || k != wk {
			c.Report(t, "C18|CTStates|value-mismatch|last-op="+ctOpName(op),
				fmt.Sprintf("ops=%s: value=%08x mask=%08x want value=%08x mask=%08x", ctSeqString(ops[:i+1]), v, k, wv, wk), ctSeqString(ops[:i+1]))
			return
		}
	}
}

func TestC18(t *testing.T) {
	c := ev.For("C18")
	defer c.Done()
	// the first use of the ct_state header in this process is somebody else's, and unmasked (a move or
	// learn-spec source): what the builder returns later must not depend on who came first
	of.FindFieldHeaderByName("NXM_NX_CT_STATE", false)
	c.Rule("(a) exhaustive: each of the 3^8=6561 builder states (reached by a canonical call sequence) x 16 operations; " +
		"(b) exhaustive: every call sequence of length 1..4 (69904); (c) rapid: random sequences of length 5..64 checked after every step. " +
		"Observed through the value/mask bytes of NewCTStateMatchField. Non-trivial: a sequence that touches some flag twice or two different flags " +
		"(for (a): every state x op pair); distinct by the op sequence.")

	// (a) every reachable state x every op
	for code := 0; code < 6561; code++ {
		var pre []int
		x := code
		for f := 0; f < 8; f++ {
			switch x % 3 {
			case 1:
				pre = append(pre, 2*f)
			case 2:
				pre = append(pre, 2*f+1)
			}
			x /= 3
		}
		for op := 0; op < 16; op++ {
			seq := append(append([]int{}, pre...), op)
			c.Eval()
			c.NonTrivial(ev.HashStr("state", fmt.Sprint(code), fmt.Sprint(op)))
			ctCheckSeq(c, nil, seq, false)
			if c.WantSample() {
				c.Sample(map[string]any{"part": "state x op", "calls": ctSeqString(seq)})
			}
		}
	}
	c.Exhaustive("6561 states x 16 ops")

	// (b) all sequences of length <= 4
	var rec func(seq []int)
	rec = func(seq []int) {
		if len(seq) > 0 {
			c.Eval()
			if len(seq) >= 2 {
				c.NonTrivial(ev.HashStr("seq", ctSeqString(seq)))
			}
			ctCheckSeq(c, nil, seq, false)
		}
		if len(seq) == 4 {
			return
		}
		for op := 0; op < 16; op++ {
			rec(append(seq, op))
		}
	}
	rec(nil)
	c.Exhaustive("69904 sequences of length<=4")

	c.FailIfViolations(t)

	// (c) longer random sequences, every step checked
	checkRapid(t, c, func(rt *rapid.T) {
		ops := rapid.SliceOfN(rapid.IntRange(0, 15), 5, 64).Draw(rt, "ops")
		if !c18Held.check(c, rt, "C18") {
			return
		}
		c.Eval()
		c.NonTrivial(ev.HashStr("rseq", ctSeqString(ops)))
		c.Label(fmt.Sprintf("random_len_%d0s", len(ops)/10))
		ctCheckSeq(c, rt, ops, true)
		if c.WantSample() {
			c.Sample(map[string]any{"part": "random", "calls": ctSeqString(ops)})
		}
	})
}
