package checks

import (
	"bytes"
	"encoding/binary"
	"fmt"
	"strings"
	"testing"

	"github.com/contiv/libOpenflow/ofbase"
	"pgregory.net/rapid"
	"verifharness/ev"
	"verifharness/gen"
)

// C19 — ofbase primitives against a byte-slice cursor model (DESIGN.md 10, C19).
//
// A case is a history of typed writes (8/16/32/64/128-bit, raw bytes, align)
// applied to ofbase.Encoder; the model keeps the expected bytes in a plain
// slice. The history is then read back through ofbase.Decoder, either flat or
// through arbitrarily nested SliceDecoder(length, rewind) windows; values,
// order, offsets, base offsets and alignment are compared with the model after
// every single step.

type c19op struct {
	kind  int // 0 u8, 1 u16, 2 u32, 3 u64, 4 u128, 5 raw, 6 align, 7 char
	u     uint64
	hi    uint64
	raw   []byte
	start int // model: absolute offset before the op
	end   int // model: absolute offset after the op
}

func (o c19op) String() string {
	switch o.kind {
	case 0:
		return fmt.Sprintf("u8(%#x)", o.u)
	case 1:
		return fmt.Sprintf("u16(%#x)", o.u)
	case 2:
		return fmt.Sprintf("u32(%#x)", o.u)
	case 3:
		return fmt.Sprintf("u64(%#x)", o.u)
	case 4:
		return fmt.Sprintf("u128(%#x:%#x)", o.hi, o.u)
	case 5:
		return fmt.Sprintf("raw(%x)", o.raw)
	case 6:
		return fmt.Sprintf("align@%d", o.start)
	}
	return fmt.Sprintf("char(%#x)", o.u)
}

func c19History(rt *rapid.T) []c19op {
	g := gen.New(rt, 0)
	n := rapid.IntRange(1, 24).Draw(rt, "nops")
	ops := make([]c19op, 0, n)
	for i := 0; i < n; i++ {
		o := c19op{kind: gen.Pick(rt, "op", 8)}
		switch o.kind {
		case 0, 7:
			o.u = uint64(g.U8("v8"))
		case 1:
			o.u = uint64(g.U16("v16"))
		case 2:
			o.u = uint64(g.U32("v32"))
		case 3:
			o.u = g.U64("v64")
		case 4:
			o.hi, o.u = g.U64("vhi"), g.U64("vlo")
		case 5:
			o.raw = rapid.SliceOfN(rapid.Byte(), 0, 11).Draw(rt, "raw")
		}
		ops = append(ops, o)
	}
	return ops
}

// c19Model fills start/end and returns the bytes the history denotes.
func c19Model(ops []c19op) []byte {
	var w []byte
	for i := range ops {
		o := &ops[i]
		o.start = len(w)
		switch o.kind {
		case 0, 7:
			w = append(w, byte(o.u))
		case 1:
			w = binary.BigEndian.AppendUint16(w, uint16(o.u))
		case 2:
			w = binary.BigEndian.AppendUint32(w, uint32(o.u))
		case 3:
			w = binary.BigEndian.AppendUint64(w, o.u)
		case 4:
			w = binary.BigEndian.AppendUint64(w, o.hi)
			w = binary.BigEndian.AppendUint64(w, o.u)
		case 5:
			w = append(w, o.raw...)
		case 6:
			for len(w)%8 != 0 {
				w = append(w, 0)
			}
		}
		o.end = len(w)
	}
	return w
}

// c19Arena is what the raw writes of a history are cut from: one array, each
// write a sub-slice with the rest of the array behind it (a caller copying
// pieces of a receive buffer into an encoder). The encoder owns what it was
// given: the arena is not written by it, and the encoding does not change when
// the arena is overwritten afterwards.
type c19Arena struct {
	mem  []byte
	refs [][2]int
}

func c19Encode(ops []c19op) []byte { b, _ := c19EncodeArena(ops); return b }

func c19EncodeArena(ops []c19op) ([]byte, string) {
	var ar c19Arena
	for _, o := range ops {
		if o.kind == 5 {
			ar.refs = append(ar.refs, [2]int{len(ar.mem), len(ar.mem) + len(o.raw)})
			ar.mem = append(ar.mem, o.raw...)
			ar.mem = append(ar.mem, 0xa5, 0x5a) // a gap the encoder has no business with
		}
	}
	ar.mem = append(ar.mem, bytes.Repeat([]byte{0xc3}, 24)...)
	before := append([]byte{}, ar.mem...)
	ri := 0
	e := ofbase.NewEncoder()
	// a second encoder is alive at the same time (a reply being assembled while a request is): created after the
	// first, written before and after it; neither sees the other's bytes
	other := ofbase.NewEncoder()
	otherWant := bytes.Repeat([]byte{0x77}, 24)
	other.Write(otherWant)
	for _, o := range ops {
		if o.kind == 5 {
			r := ar.refs[ri]
			ri++
			e.Write(ar.mem[r[0]:r[1]]) // capacity runs on to the end of the arena
			continue
		}
		c19EncodeOp(e, o)
	}
	out := append([]byte{}, e.Bytes()...)
	if !bytes.Equal(other.Bytes(), otherWant) {
		return out, fmt.Sprintf("writing to one encoder changed another encoder's bytes: %x, was %x", other.Bytes(), otherWant)
	}
	filler := bytes.Repeat([]byte{0x99}, 300)
	other.Write(filler)
	if after := e.Bytes(); !bytes.Equal(after, out) {
		return out, fmt.Sprintf("the encoding changed when another encoder was written to: %x, was %x", after, out)
	}
	if !bytes.Equal(other.Bytes(), append(append([]byte{}, otherWant...), filler...)) {
		return out, fmt.Sprintf("the second encoder holds %x after writing 24 + 300 bytes to it", other.Bytes())
	}
	if !bytes.Equal(ar.mem, before) {
		return out, fmt.Sprintf("the encoder wrote into the caller's memory: %x, was %x", ar.mem, before)
	}
	for i := range ar.mem {
		ar.mem[i] = 0xee
	}
	if after := e.Bytes(); !bytes.Equal(after, out) {
		return out, fmt.Sprintf("the encoding changed when the caller reused its buffer: %x, was %x", after, out)
	}
	return out, ""
}

func c19EncodeOp(e *ofbase.Encoder, o c19op) {
	c19EncodeOps(e, []c19op{o})
}

func c19EncodeOps(e *ofbase.Encoder, ops []c19op) {
	for _, o := range ops {
		switch o.kind {
		case 0:
			e.PutUint8(uint8(o.u))
		case 7:
			e.PutChar(byte(o.u))
		case 1:
			e.PutUint16(uint16(o.u))
		case 2:
			e.PutUint32(uint32(o.u))
		case 3:
			e.PutUint64(o.u)
		case 4:
			e.PutUint128(ofbase.Uint128{Hi: o.hi, Lo: o.u})
		case 5:
			e.Write(o.raw)
		case 6:
			e.SkipAlign()
		}
	}
}

type c19fail struct{ sig, detail string }

// results of raw reads of the current case, re-examined after all later reads
type c19held struct {
	got, want []byte
	op        int
}

var c19Held []c19held

// c19Read reads ops[i:j) from d, whose first byte sits at absolute offset abs0
// of the message; with probability it carves sub-ranges into nested slice
// decoders. Returns the first disagreement with the model.
func c19Read(rt *rapid.T, d *ofbase.Decoder, ops []c19op, i, j, abs0, depth int, plan *[]string) (fail *c19fail) {
	var deferred []func() *c19fail
	defer func() {
		if fail != nil {
			return
		}
		for _, f := range deferred {
			if fail = f(); fail != nil {
				return
			}
		}
	}()
	k := i
	for k < j {
		// carve ops[k:l) into a sliced decoder?
		if depth < 3 && j-k >= 1 && gen.Pick(rt, "slice?", 4) == 0 {
			l := k + rapid.IntRange(1, j-k).Draw(rt, "slice_len")
			nbytes := ops[l-1].end - ops[k].start
			// an element whose length excludes its padding: the window ends where the trailing
			// align starts, the align is issued inside the window (its target lies beyond the
			// window's end) and the parent steps over the padding itself
			padOutside := 0
			if ops[l-1].kind == 6 && ops[l-1].end > ops[l-1].start && rapid.Bool().Draw(rt, "window_excludes_padding") {
				padOutside = ops[l-1].end - ops[l-1].start
				nbytes -= padOutside
			}
			rewind := rapid.IntRange(0, 9).Draw(rt, "rewind")
			before := d.Offset()
			wantBase := ops[k].start
			sub := d.SliceDecoder(nbytes+rewind, rewind)
			*plan = append(*plan, fmt.Sprintf("slice[d%d ops %d..%d bytes=%d rewind=%d base=%d]", depth+1, k, l, nbytes, rewind, wantBase))
			if sub.BaseOffset() != wantBase {
				return &c19fail{"C19|SliceDecoder|base-offset", fmt.Sprintf("sliced at absolute %d: BaseOffset()=%d", wantBase, sub.BaseOffset())}
			}
			if sub.Length() != nbytes || sub.Offset() != 0 {
				return &c19fail{"C19|SliceDecoder|extent", fmt.Sprintf("slice of %d bytes: Length()=%d Offset()=%d", nbytes, sub.Length(), sub.Offset())}
			}
			if d.Offset() != before+nbytes {
				return &c19fail{"C19|SliceDecoder|parent-advance", fmt.Sprintf("parent advanced by %d, want %d", d.Offset()-before, nbytes)}
			}
			kk := k // the loop variable moves on before a kept window is read
			readWindow := func() *c19fail {
				if f := c19Read(rt, sub, ops, kk, l, wantBase, depth+1, plan); f != nil {
					return f
				}
				if sub.Length() != -padOutside {
					return &c19fail{"C19|SliceDecoder|leftover", fmt.Sprintf("%d bytes left in the slice after reading its ops (want %d)", sub.Length(), -padOutside)}
				}
				// nothing decodes as a header from an exhausted window, whatever lies behind it in the parent
				var h ofbase.Header
				if err := h.Decode(sub); err == nil {
					return &c19fail{"C19|Header.Decode|short-accepted", fmt.Sprintf("a window with %d bytes left (parent has more behind it) gave a header %+v", sub.Length(), h)}
				}
				return nil
			}
			if rapid.Bool().Draw(rt, "window_read_later") {
				// a caller that first cuts a list into its elements and decodes them afterwards: the window is
				// kept while the parent goes on (and hands out further windows), and read at the end
				k0, l0 := k, l
				later := readWindow
				readWindow = func() *c19fail { return nil }
				deferred = append(deferred, func() *c19fail {
					*plan = append(*plan, fmt.Sprintf("now reading the window of ops %d..%d", k0, l0))
					return later()
				})
			}
			if f := readWindow(); f != nil {
				return f
			}
			if padOutside > 0 {
				*plan = append(*plan, fmt.Sprintf("parent skips %d pad", padOutside))
				if rapid.Bool().Draw(rt, "parent_align") {
					d.SkipAlign()
				} else {
					d.Skip(padOutside)
				}
				if abs0+d.Offset() != ops[l-1].end {
					return &c19fail{"C19|Decoder.SkipAlign|misaligned", fmt.Sprintf("parent after stepping over %d pad bytes at absolute %d, model at %d", padOutside, abs0+d.Offset(), ops[l-1].end)}
				}
			}
			k = l
			continue
		}
		o := ops[k]
		off0 := d.Offset()
		if abs0+off0 != o.start {
			return &c19fail{"C19|Decoder|offset-drift", fmt.Sprintf("before op %d (%s) decoder at absolute %d, model at %d", k, o, abs0+off0, o.start)}
		}
		bad := func(got any) *c19fail {
			return &c19fail{"C19|Read|value-mismatch|" + strings.SplitN(o.String(), "(", 2)[0], fmt.Sprintf("op %d %s read back as %#x", k, o, got)}
		}
		switch o.kind {
		case 0:
			if v := d.ReadUint8(); uint64(v) != o.u {
				return bad(v)
			}
		case 7:
			if v := d.ReadByte(); uint64(v) != o.u {
				return bad(v)
			}
		case 1:
			if v := d.ReadUint16(); uint64(v) != o.u {
				return bad(v)
			}
		case 2:
			if v := d.ReadUint32(); uint64(v) != o.u {
				return bad(v)
			}
		case 3:
			if v := d.ReadUint64(); v != o.u {
				return bad(v)
			}
		case 4:
			if v := d.ReadUint128(); v.Hi != o.hi || v.Lo != o.u {
				return bad(fmt.Sprintf("%x:%x", v.Hi, v.Lo))
			}
		case 5:
			if gen.Pick(rt, "skip_or_read", 4) == 0 {
				rest := d.Bytes()
				if len(rest) < len(o.raw) || !bytes.Equal(rest[:len(o.raw)], o.raw) {
					return bad(rest)
				}
				d.Skip(len(o.raw))
			} else {
				v := d.Read(len(o.raw))
				if !bytes.Equal(v, o.raw) {
					return bad(v)
				}
				// what a read returned stays what it was while the decoder moves on
				c19Held = append(c19Held, c19held{v, o.raw, k})
			}
		case 6:
			d.SkipAlign()
			adv := d.Offset() - off0
			if adv < 0 || adv > 7 || (abs0+d.Offset())%8 != 0 {
				return &c19fail{"C19|Decoder.SkipAlign|misaligned", fmt.Sprintf("align at absolute %d (base %d + offset %d) moved by %d to absolute %d", abs0+off0, abs0, off0, adv, abs0+d.Offset())}
			}
		}
		if d.Offset()-off0 != o.end-o.start {
			return &c19fail{"C19|Decoder|advance", fmt.Sprintf("op %d %s advanced the decoder by %d, width is %d", k, o, d.Offset()-off0, o.end-o.start)}
		}
		k++
	}
	return nil
}

func TestC19(t *testing.T) {
	c := ev.For("C19")
	defer c.Done()
	c.Rule("rapid histories of 1..24 typed writes (PutUint8/Char/16/32/64/128, Write of 0..11 raw bytes, SkipAlign) with boundary-biased values; " +
		"oracle = byte-slice cursor model: encoder bytes == model bytes (zero pad, length multiple of 8 after align); the history is read back flat or through " +
		"nested SliceDecoder(length, rewind) windows (depth<=3, rewind 0..9) and after every read value, advance, BaseOffset and absolute alignment are compared. " +
		"Plus exhaustive sweeps: SkipAlign at every (base 0..40, offset 0..40) pair through real slicing, Encoder.SkipAlign at every length 0..64, Header.Decode on every " +
		"input length 0..16 at every start offset 0..8. Non-trivial: history mixes >=3 widths and has an align at a non-multiple of 8; distinct by hash of bytes+slicing plan.")
	c.Assume("SliceDecoder(length, rewind) is read as in its loxigen origin: the window holds length-rewind bytes starting at the current offset and the parent advances by the same amount")

	if shard0() {
		c19Sweeps(c)
		c.FailIfViolations(t)
	}

	checkRapid(t, c, func(rt *rapid.T) {
		ops := c19History(rt)
		want := c19Model(ops)
		c.Eval()
		var strs []string
		widths := map[int]bool{}
		oddAlign := false
		for _, o := range ops {
			strs = append(strs, o.String())
			widths[o.kind] = true
			if o.kind == 6 && o.start%8 != 0 {
				oddAlign = true
			}
		}
		var got []byte
		var owns string
		if fr, msg := safeCall(func() { got, owns = c19EncodeArena(ops) }); fr != "" {
			c.Report(rt, "C19|Encoder|panic|"+fr, msg, strs)
			return
		}
		if owns != "" {
			c.Report(rt, "C19|Encoder|shares-memory-with-caller", fmt.Sprintf("history %v: %s", strs, owns), strs)
			return
		}
		if !bytes.Equal(got, want) {
			sig := "C19|Encoder|bytes-mismatch"
			for _, o := range ops {
				if o.kind == 6 {
					sig = "C19|Encoder|bytes-mismatch(with-align)"
				}
			}
			c.Report(rt, sig, fmt.Sprintf("history %v encodes to %x, model %x", strs, got, want), strs)
			return
		}
		var plan []string
		var f *c19fail
		buf := append([]byte{}, got...)
		c19Held = c19Held[:0]
		fr, msg := safeCall(func() { f = c19Read(rt, ofbase.NewDecoder(buf), ops, 0, len(ops), 0, 0, &plan) })
		if fr == "" && f == nil {
			for _, h := range c19Held {
				if !bytes.Equal(h.got, h.want) {
					f = &c19fail{"C19|Read|value-changed-by-later-read", fmt.Sprintf("the bytes returned for op %d (%x) read %x after later reads on the same decoder", h.op, h.want, h.got)}
					break
				}
			}
		}
		if fr != "" {
			c.Report(rt, "C19|Decoder|panic|"+fr, fmt.Sprintf("%s :: history %v plan %v", msg, strs, plan), strs)
			return
		}
		if f != nil {
			c.Report(rt, f.sig, fmt.Sprintf("%s :: history %v plan %v bytes %x", f.detail, strs, plan, got), map[string]any{"history": strs, "plan": plan})
			return
		}
		if !bytes.Equal(buf, got) {
			c.Report(rt, "C19|Decoder|input-modified", "decoder wrote into its input", strs)
		}
		if len(widths) >= 3 && oddAlign {
			c.NonTrivial(ev.Hash64(got, []byte(strings.Join(plan, ";"))))
		}
		if len(plan) > 0 {
			c.Label("sliced")
			if len(plan) > 1 {
				c.Label("nested_or_multiple_slices")
			}
		}
		if oddAlign {
			c.Label("align_at_non_multiple_of_8")
		}
		if c.WantSample() {
			c.Sample(map[string]any{"history": strs, "slicing": plan, "hex": hx(got)})
		}
	})
}

func c19Sweeps(c *ev.Collector) {
	// (1) Decoder.SkipAlign at every base/offset pair, bases produced by real slicing (two levels)
	buf := make([]byte, 200)
	for i := range buf {
		buf[i] = byte(i)
	}
	for base1 := 0; base1 <= 40; base1++ {
		for base2 := 0; base2 <= 16; base2++ {
			for off := 0; off <= 40; off++ {
				c.Eval()
				c.NonTrivial(ev.HashStr("align", fmt.Sprint(base1, base2, off)))
				fr, msg := safeCall(func() {
					d := ofbase.NewDecoder(buf)
					d.Skip(base1)
					s1 := d.SliceDecoder(120, 0)
					s1.Skip(base2)
					s2 := s1.SliceDecoder(60+3, 3)
					abs := base1 + base2
					if s2.BaseOffset() != abs {
						c.Report(nil, "C19|SliceDecoder|base-offset", fmt.Sprintf("nested slice at absolute %d reports base %d", abs, s2.BaseOffset()), nil)
						return
					}
					s2.Skip(off)
					s2.SkipAlign()
					adv := s2.Offset() - off
					if adv < 0 || adv > 7 || (abs+s2.Offset())%8 != 0 {
						c.Report(nil, "C19|Decoder.SkipAlign|misaligned", fmt.Sprintf("base %d offset %d: moved by %d to absolute %d", abs, off, adv, abs+s2.Offset()), nil)
						return
					}
					if b := s2.ReadUint8(); int(b) != abs+off+adv {
						c.Report(nil, "C19|Decoder|wrong-byte-after-align", fmt.Sprintf("base %d offset %d: next byte %d, want %d", abs, off, b, abs+off+adv), nil)
					}
				})
				if fr != "" {
					c.Report(nil, "C19|Decoder|panic|"+fr, msg, nil)
				}
			}
		}
	}
	c.Exhaustive("Decoder.SkipAlign over base 0..56 x offset 0..40 via two-level slicing")
	// (1b) the same at and near the end of short windows: the target of the skip may lie beyond the
	// window (an element whose length excludes its padding), the rule is the same
	for base := 0; base <= 24; base++ {
		for wlen := 0; wlen <= 17; wlen++ {
			for off := 0; off <= wlen; off++ {
				c.Eval()
				c.NonTrivial(ev.HashStr("align-end", fmt.Sprint(base, wlen, off)))
				fr, msg := safeCall(func() {
					d := ofbase.NewDecoder(buf)
					d.Skip(base)
					w := d.SliceDecoder(wlen, 0)
					w.Skip(off)
					w.SkipAlign()
					adv := w.Offset() - off
					if adv < 0 || adv > 7 || (base+w.Offset())%8 != 0 {
						c.Report(nil, "C19|Decoder.SkipAlign|misaligned", fmt.Sprintf("base %d window %d offset %d: moved by %d to absolute %d", base, wlen, off, adv, base+w.Offset()), nil)
					}
				})
				if fr != "" {
					c.Report(nil, "C19|Decoder|panic|"+fr, msg, nil)
				}
			}
		}
	}
	c.Exhaustive("Decoder.SkipAlign over base 0..24 x window 0..17 x every offset in the window")
	// (2) Encoder.SkipAlign at every length
	for n := 0; n <= 64; n++ {
		c.Eval()
		c.NonTrivial(ev.HashStr("encalign", fmt.Sprint(n)))
		e := ofbase.NewEncoder()
		e.Write(bytes.Repeat([]byte{0xee}, n))
		e.SkipAlign()
		b := e.Bytes()
		want := (n + 7) / 8 * 8
		ok := len(b) == want
		for i := n; ok && i < len(b); i++ {
			ok = b[i] == 0
		}
		for i := 0; ok && i < n; i++ {
			ok = b[i] == 0xee
		}
		if !ok {
			c.Report(nil, "C19|Encoder.SkipAlign|misaligned", fmt.Sprintf("after %d bytes: %x", n, b), nil)
		}
	}
	c.Exhaustive("Encoder.SkipAlign over lengths 0..64")
	// (3) Header.Decode on every remaining length 0..16 at every start offset 0..8
	for start := 0; start <= 8; start++ {
		for n := 0; n <= 16; n++ {
			c.Eval()
			c.NonTrivial(ev.HashStr("hdr", fmt.Sprint(start, n)))
			for backing := 0; backing < 3; backing++ {
				// 0: a buffer of exactly that size; 1: the head of a larger receive buffer (spare
				// capacity behind the data); 2: a window cut out of the middle of a parent decoder
				big := make([]byte, start+n+32)
				for i := range big {
					big[i] = byte(0x11*(i+1)) ^ 0x5a
				}
				data := big[:start+n]
				if backing == 0 {
					data = append([]byte{}, data...)
				}
				if backing > 0 {
					c.Eval()
				}
				var h ofbase.Header
				var err error
				fr, msg := safeCall(func() {
					d := ofbase.NewDecoder(data)
					if backing == 2 {
						d = ofbase.NewDecoder(big).SliceDecoder(start+n, 0)
					}
					d.Skip(start)
					err = h.Decode(d)
				})
				cs := fmt.Sprintf("start=%d remaining=%d backing=%d", start, n, backing)
				switch {
				case fr != "":
					c.Report(nil, "C19|Header.Decode|panic", cs+": "+msg, cs)
				case n < 8 && err == nil:
					c.Report(nil, "C19|Header.Decode|short-accepted", cs+": no error from a header of fewer than 8 bytes", cs)
				case n >= 8 && err != nil:
					c.Report(nil, "C19|Header.Decode|rejected", cs+": "+err.Error(), cs)
				case n >= 8:
					p := data[start:]
					if h.Version != p[0] || h.Type != p[1] || h.Length != binary.BigEndian.Uint16(p[2:]) || h.Xid != binary.BigEndian.Uint32(p[4:]) {
						c.Report(nil, "C19|Header.Decode|value-mismatch", fmt.Sprintf("%s: %+v from %x", cs, h, p[:8]), cs)
					}
				}
			}
		}
	}
	// a decoder whose offset is already past the end of its buffer (Skip / SkipAlign beyond the data): still an error
	for n := 0; n <= 16; n++ {
		for over := 1; over <= 9; over++ {
			c.Eval()
			c.NonTrivial(ev.HashStr("hdr-over", fmt.Sprint(n, over)))
			var err error
			fr, msg := safeCall(func() {
				d := ofbase.NewDecoder(make([]byte, n))
				if over == 9 {
					d.Skip(n + 1)
					d.SkipAlign()
				} else {
					d.Skip(n + over)
				}
				var h ofbase.Header
				err = h.Decode(d)
			})
			cs := fmt.Sprintf("buffer=%d offset=%d past the end", n, over)
			if fr != "" {
				c.Report(nil, "C19|Header.Decode|panic", cs+": "+msg, cs)
			} else if err == nil {
				c.Report(nil, "C19|Header.Decode|short-accepted", cs+": no error", cs)
			}
		}
	}
	c.Exhaustive("Header.Decode over start 0..8 x remaining 0..16, and offsets past the end")
}
