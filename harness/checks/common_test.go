package checks

import (
	"encoding/hex"
	"fmt"
	"io"
	"os"
	"reflect"
	"runtime"
	"runtime/debug"
	"strings"
	"testing"

	"github.com/contiv/libOpenflow/util"
	"github.com/sirupsen/logrus"
	stdlog "log"
	"pgregory.net/rapid"
	"verifharness/ev"
	"verifharness/gen"
)

func TestMain(m *testing.M) {
	// the library logs through logrus and the std logger; silence both (the
	// checks never signal through output)
	logrus.SetOutput(io.Discard)
	logrus.SetLevel(logrus.PanicLevel)
	stdlog.SetOutput(io.Discard)
	// the library ends the process through log.Fatalf in places (a failed write on the stream): say so on the way
	// out, with the stack, so that the driver can tell a process the library has terminated from any other exit
	logrus.StandardLogger().ExitFunc = func(code int) {
		fmt.Fprintf(os.Stderr, "LIBRARY-FATAL: the library called log.Fatal (exit code %d)\n%s\n", code, debug.Stack())
		os.Exit(97)
	}
	os.Exit(m.Run())
}

func hx(b []byte) string {
	if len(b) > 512 {
		return fmt.Sprintf("%s...(%d bytes)", hex.EncodeToString(b[:512]), len(b))
	}
	return hex.EncodeToString(b)
}

// libFrame returns the name of the first library function on the stack of a
// recovered panic (never a line number: unrelated edits must not invalidate
// signatures).
func libFrame() string {
	pcs := make([]uintptr, 64)
	n := runtime.Callers(3, pcs)
	fr := runtime.CallersFrames(pcs[:n])
	for {
		f, more := fr.Next()
		if strings.Contains(f.Function, "github.com/contiv/libOpenflow/") {
			fn := f.Function[strings.Index(f.Function, "libOpenflow/")+len("libOpenflow/"):]
			return fn
		}
		if !more {
			break
		}
	}
	return "?"
}

// safeMarshal encodes m, turning a panic into (nil, frame, message).
func safeMarshal(m util.Message) (b []byte, frame, msg string) {
	defer func() {
		if r := recover(); r != nil {
			b, frame, msg = nil, libFrame(), fmt.Sprint(r)
		}
	}()
	b, err := m.MarshalBinary()
	if err != nil {
		return nil, "error", err.Error()
	}
	return b, "", ""
}

func safeLen(m util.Message) (n int, frame string) {
	defer func() {
		if r := recover(); r != nil {
			n, frame = -1, libFrame()
		}
	}()
	return int(m.Len()), ""
}

// safeCall runs f, returning the first library frame and message of a panic.
func safeCall(f func()) (frame, msg string) {
	defer func() {
		if r := recover(); r != nil {
			frame, msg = libFrame(), fmt.Sprint(r)
		}
	}()
	f()
	return "", ""
}

func envInt(name string, def int) int {
	v := os.Getenv(name)
	if v == "" {
		return def
	}
	var n int
	fmt.Sscan(v, &n)
	return n
}

// shard0 is true in the first shard of a job: exhaustive sweeps and directed
// regressions run there only, so that merged counts are not inflated.
func shard0() bool { return envInt("VERIF_SHARD", 0) == 0 }

// commonHeader / setXidReflect: set Header.Xid of any library message through
// reflection (every top-level kind embeds or is a common.Header).
type commonHeader = struct{}

func setXidReflect(m util.Message, xid uint32) {
	v := reflect.ValueOf(m)
	if v.Kind() != reflect.Ptr {
		return
	}
	e := v.Elem()
	if e.Kind() != reflect.Struct {
		return
	}
	if f := e.FieldByName("Xid"); f.IsValid() && f.CanSet() && f.Kind() == reflect.Uint32 {
		f.SetUint(uint64(xid))
		return
	}
	if h := e.FieldByName("Header"); h.IsValid() && h.Kind() == reflect.Struct {
		if f := h.FieldByName("Xid"); f.IsValid() && f.CanSet() {
			f.SetUint(uint64(xid))
		}
	}
}

// xidOf reads Header.Xid of a library message (ok=false when there is none).
func xidOf(m util.Message) (uint32, bool) {
	v := reflect.ValueOf(m)
	if v.Kind() != reflect.Ptr || v.IsNil() {
		return 0, false
	}
	e := v.Elem()
	if e.Kind() != reflect.Struct {
		return 0, false
	}
	if f := e.FieldByName("Xid"); f.IsValid() && f.Kind() == reflect.Uint32 {
		return uint32(f.Uint()), true
	}
	if h := e.FieldByName("Header"); h.IsValid() && h.Kind() == reflect.Struct {
		if f := h.FieldByName("Xid"); f.IsValid() && f.Kind() == reflect.Uint32 {
			return uint32(f.Uint()), true
		}
	}
	return 0, false
}

// checkRapid is rapid.Check with one addition: a panic that escapes the property
// function from inside the library - a constructor, an adder, an encoder called
// by a generator on the values it is documented to accept - is a violation of the
// property under test ("... or reports an error, never a panic"; a builder that
// cannot build what the property quantifies over), not a crash of the check.
// Panics from rapid itself (its control flow) and from the harness pass through.
func checkRapid(t *testing.T, c *ev.Collector, prop func(*rapid.T)) {
	rapid.Check(t, guardLib(c, prop))
}

func guardLib(c *ev.Collector, prop func(*rapid.T)) func(*rapid.T) {
	return func(rt *rapid.T) {
		defer func() {
			r := recover()
			if r == nil {
				return
			}
			if tn := fmt.Sprintf("%T", r); strings.Contains(tn, "rapid.") {
				panic(r)
			}
			if rf, ok := r.(gen.Refused); ok {
				c.Report(rt, c.Property+"|constructor-refused-legitimate-input", rf.What, map[string]any{"refused": rf.What})
				return
			}
			fr := libFrame()
			if fr == "?" {
				panic(r)
			}
			msg := fmt.Sprint(r)
			c.Report(rt, c.Property+"|panic-on-generated-input|"+fr, "the library panicked while a generated, legitimate value was built or encoded: "+msg, map[string]any{"panic": msg, "frame": fr})
		}()
		caseArm(c)
		defer caseDisarm()
		prop(rt)
	}
}
