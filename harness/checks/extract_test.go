package checks

import (
	"bytes"
	"fmt"
	"net"
	"reflect"

	"github.com/contiv/libOpenflow/common"
	of "github.com/contiv/libOpenflow/openflow13"
	"github.com/contiv/libOpenflow/util"
	"verifharness/spec"
)

// Extractors: library value -> spec tree, reading exported fields (and, where a
// kind keeps what it decoded in unexported fields only, those through
// reflection, read-only). Used by C04 to compare what Parse returned with the
// tree the independent encoder serialised.

type extractErr struct{ msg string }

func xfail(format string, a ...any) { panic(extractErr{fmt.Sprintf(format, a...)}) }

func unexp(v any, name string) reflect.Value {
	rv := reflect.ValueOf(v)
	for rv.Kind() == reflect.Ptr {
		rv = rv.Elem()
	}
	return rv.FieldByName(name)
}

func encOf(m util.Message) []byte {
	if m == nil || (reflect.ValueOf(m).Kind() == reflect.Ptr && reflect.ValueOf(m).IsNil()) {
		xfail("nil payload")
	}
	b, err := m.MarshalBinary()
	if err != nil {
		xfail("payload encoder: %v", err)
	}
	return b
}

func fix(b []byte, n int) []byte {
	x := make([]byte, n)
	copy(x, b)
	return x
}

func ip4(ip net.IP) []byte {
	if v := ip.To4(); v != nil {
		return []byte(v)
	}
	return []byte(ip)
}

func extractSafe(m util.Message) (n *spec.Node, err error) {
	defer func() {
		if r := recover(); r != nil {
			if e, ok := r.(extractErr); ok {
				n, err = nil, fmt.Errorf("%s", e.msg)
				return
			}
			n, err = nil, fmt.Errorf("extractor panic: %v", r)
		}
	}()
	return extractMsg(m), nil
}

func extractMsg(m util.Message) *spec.Node {
	switch v := m.(type) {
	case *common.Hello:
		n := spec.N("msg.hello", spec.U("xid", uint64(v.Xid)))
		if v.Version != spec.OFVersion {
			n.With(spec.U("version", uint64(v.Version)))
		}
		for _, e := range v.Elements {
			vb, ok := e.(*common.HelloElemVersionBitmap)
			if !ok {
				xfail("hello element of type %T", e)
			}
			var w []byte
			for _, b := range vb.Bitmaps {
				w = append(w, byte(b>>24), byte(b>>16), byte(b>>8), byte(b))
			}
			n.Add(spec.N("hello.versionbitmap", spec.B("bitmaps", w)))
		}
		return n
	case *common.Header:
		kinds := map[uint8]string{2: "msg.echo_request", 3: "msg.echo_reply", 5: "msg.features_request", 7: "msg.get_config_request", 20: "msg.barrier_request", 21: "msg.barrier_reply"}
		k, ok := kinds[v.Type]
		if !ok {
			xfail("bare header of type %d", v.Type)
		}
		n := spec.N(k, spec.U("xid", uint64(v.Xid)))
		if v.Type == 2 || v.Type == 3 {
			n.With(spec.B("data", nil)) // the kind has nowhere to keep a payload
		}
		return n
	case *of.ErrorMsg:
		return spec.N("msg.error", spec.U("xid", uint64(v.Xid)), spec.U("type", uint64(v.Type)), spec.U("code", uint64(v.Code)), spec.B("data", v.Data.Bytes()))
	case *of.VendorError:
		return spec.N("msg.error_exp", spec.U("xid", uint64(v.Xid)), spec.U("exp_type", uint64(v.Code)), spec.U("experimenter", uint64(v.ExperimenterID)), spec.B("data", v.Data.Bytes()))
	case *of.SwitchFeatures:
		return spec.N("msg.features_reply", spec.U("xid", uint64(v.Xid)), spec.U("datapath_id", be64of(fix(v.DPID, 8))), spec.U("n_buffers", uint64(v.Buffers)),
			spec.U("n_tables", uint64(v.NumTables)), spec.U("auxiliary_id", uint64(v.AuxilaryId)), spec.U("capabilities", uint64(v.Capabilities)), spec.U("reserved", uint64(v.Actions)))
	case *of.SwitchConfig:
		k := "msg.get_config_reply"
		if v.Header.Type == of.Type_SetConfig {
			k = "msg.set_config"
		}
		return spec.N(k, spec.U("xid", uint64(v.Xid)), spec.U("flags", uint64(v.Flags)), spec.U("miss_send_len", uint64(v.MissSendLen)))
	case *of.PacketIn:
		n := spec.N("msg.packet_in", spec.U("xid", uint64(v.Xid)), spec.U("buffer_id", uint64(v.BufferId)), spec.U("total_len", uint64(v.TotalLen)), spec.U("reason", uint64(v.Reason)),
			spec.U("table_id", uint64(v.TableId)), spec.U("cookie", v.Cookie))
		n.Add(extractMatch(&v.Match))
		return n // payload compared separately
	case *of.FlowRemoved:
		n := spec.N("msg.flow_removed", spec.U("xid", uint64(v.Xid)), spec.U("cookie", v.Cookie), spec.U("priority", uint64(v.Priority)), spec.U("reason", uint64(v.Reason)),
			spec.U("table_id", uint64(v.TableId)), spec.U("duration_sec", uint64(v.DurationSec)), spec.U("duration_nsec", uint64(v.DurationNSec)),
			spec.U("idle_timeout", uint64(v.IdleTimeout)), spec.U("hard_timeout", uint64(v.HardTimeout)), spec.U("packet_count", v.PacketCount), spec.U("byte_count", v.ByteCount))
		n.Add(extractMatch(&v.Match))
		return n
	case *of.PortStatus:
		return spec.N("msg.port_status", spec.U("xid", uint64(v.Xid)), spec.U("reason", uint64(v.Reason))).Add(extractPort(&v.Desc))
	case *of.FlowMod:
		n := spec.N("msg.flow_mod", spec.U("xid", uint64(v.Xid)), spec.U("cookie", v.Cookie), spec.U("cookie_mask", v.CookieMask), spec.U("table_id", uint64(v.TableId)),
			spec.U("command", uint64(v.Command)), spec.U("idle_timeout", uint64(v.IdleTimeout)), spec.U("hard_timeout", uint64(v.HardTimeout)),
			spec.U("priority", uint64(v.Priority)), spec.U("buffer_id", uint64(v.BufferId)), spec.U("out_port", uint64(v.OutPort)),
			spec.U("out_group", uint64(v.OutGroup)), spec.U("flags", uint64(v.Flags)))
		n.Add(extractMatch(&v.Match))
		for _, i := range v.Instructions {
			n.Add(extractInstr(i))
		}
		return n
	case *of.MultipartReply:
		n := spec.N("msg.multipart_reply", spec.U("xid", uint64(v.Xid)), spec.U("mp_type", uint64(v.Type)), spec.U("flags", uint64(v.Flags)))
		for _, r := range v.Body {
			n.Add(extractRecord(r))
		}
		return n
	case *of.VendorHeader:
		x := spec.U("xid", uint64(v.Header.Xid))
		switch d := v.VendorData.(type) {
		case *of.TLVTableReply:
			n := spec.N("msg.nx.tlv_table_reply", x, spec.U("max_option_space", uint64(d.MaxSpace)), spec.U("max_fields", uint64(d.MaxFields)))
			for _, m := range d.TlvMaps {
				n.Add(spec.N("tlv_map", spec.U("option_class", uint64(m.OptClass)), spec.U("option_type", uint64(m.OptType)), spec.U("option_len", uint64(m.OptLength)), spec.U("index", uint64(m.Index))))
			}
			return n
		case *of.BundleControl:
			return spec.N("msg.onf.bundle_ctrl", x, spec.U("bundle_id", uint64(d.BundleID)), spec.U("type", uint64(d.Type)), spec.U("flags", uint64(d.Flags)))
		case *of.ControllerID:
			return spec.N("msg.nx.set_controller_id", x, spec.U("controller_id", uint64(d.ID)))
		case nil:
			if v.Vendor == spec.NiciraVendor && v.ExperimenterType == spec.NXTTlvTableRequest {
				return spec.N("msg.nx.tlv_table_request", x)
			}
		}
		xfail("vendor message %#x/%d with payload %T", v.Vendor, v.ExperimenterType, v.VendorData)
	}
	xfail("no extractor for %T", m)
	return nil
}

func be64of(b []byte) uint64 {
	var v uint64
	for _, x := range b {
		v = v<<8 | uint64(x)
	}
	return v
}

func extractPort(p *of.PhyPort) *spec.Node {
	return spec.N("port", spec.U("port_no", uint64(p.PortNo)), spec.B("hw_addr", fix(p.HWAddr, 6)), spec.B("name", fix(p.Name, 16)), spec.U("config", uint64(p.Config)),
		spec.U("state", uint64(p.State)), spec.U("curr", uint64(p.Curr)), spec.U("advertised", uint64(p.Advertised)), spec.U("supported", uint64(p.Supported)),
		spec.U("peer", uint64(p.Peer)), spec.U("curr_speed", uint64(p.CurrSpeed)), spec.U("max_speed", uint64(p.MaxSpeed)))
}

func extractRecord(r util.Message) *spec.Node {
	switch v := r.(type) {
	case *of.DescStats:
		return spec.N("mprep.desc", spec.B("mfr_desc", fix(v.MfrDesc, 256)), spec.B("hw_desc", fix(v.HWDesc, 256)), spec.B("sw_desc", fix(v.SWDesc, 256)),
			spec.B("serial_num", fix(v.SerialNum, 32)), spec.B("dp_desc", fix(v.DPDesc, 256)))
	case *of.FlowStats:
		n := spec.N("mprep.flow", spec.U("table_id", uint64(v.TableId)), spec.U("duration_sec", uint64(v.DurationSec)), spec.U("duration_nsec", uint64(v.DurationNSec)),
			spec.U("priority", uint64(v.Priority)), spec.U("idle_timeout", uint64(v.IdleTimeout)), spec.U("hard_timeout", uint64(v.HardTimeout)),
			spec.U("flags", uint64(v.Flags)), spec.U("cookie", v.Cookie), spec.U("packet_count", v.PacketCount), spec.U("byte_count", v.ByteCount))
		n.Add(extractMatch(&v.Match))
		for _, i := range v.Instructions {
			n.Add(extractInstr(i))
		}
		return n
	case *of.AggregateStats:
		return spec.N("mprep.aggregate", spec.U("packet_count", v.PacketCount), spec.U("byte_count", v.ByteCount), spec.U("flow_count", uint64(v.FlowCount)))
	case *of.TableStats:
		// the library's record is the OF1.0 one; only the fields OF1.3 has are compared
		return spec.N("mprep.table", spec.U("table_id", uint64(v.TableId)), spec.U("active_count", uint64(v.ActiveCount)), spec.U("lookup_count", v.LookupCount), spec.U("matched_count", v.MatchedCount))
	case *of.PortStats:
		n := spec.N("mprep.port", spec.U("port_no", uint64(v.PortNo)))
		for i, x := range []uint64{v.RxPackets, v.TxPackets, v.RxBytes, v.TxBytes, v.RxDropped, v.TxDropped, v.RxErrors, v.TxErrors, v.RxFrameErr, v.RxOverErr, v.RxCRCErr, v.Collisions} {
			n.With(spec.U([]string{"rx_packets", "tx_packets", "rx_bytes", "tx_bytes", "rx_dropped", "tx_dropped", "rx_errors", "tx_errors", "rx_frame_err", "rx_over_err", "rx_crc_err", "collisions"}[i], x))
		}
		return n // no duration fields in the library's record
	case *of.QueueStats:
		return spec.N("mprep.queue", spec.U("port_no", uint64(v.PortNo)), spec.U("queue_id", uint64(v.QueueId)), spec.U("tx_bytes", v.TxBytes), spec.U("tx_packets", v.TxPackets), spec.U("tx_errors", v.TxErrors))
	}
	xfail("no extractor for record %T", r)
	return nil
}

func extractMatch(m *of.Match) *spec.Node {
	n := spec.N("match")
	for i := range m.Fields {
		n.Add(extractField(&m.Fields[i]))
	}
	return n
}

func extractField(f *of.MatchField) *spec.Node {
	hm := uint64(0)
	if f.HasMask {
		hm = 1
	}
	n := spec.N("oxm", spec.U("class", uint64(f.Class)), spec.U("field", uint64(f.Field)), spec.U("hasmask", hm))
	if f.Class == 0xffff {
		n.With(spec.U("experimenter", uint64(f.ExperimenterID)))
	}
	n.With(spec.B("value", encOf(f.Value)))
	if f.HasMask {
		n.With(spec.B("mask", encOf(f.Mask)))
	} else {
		n.With(spec.B("mask", nil))
	}
	return n
}

func extractInstr(i of.Instruction) *spec.Node {
	switch v := i.(type) {
	case *of.InstrGotoTable:
		// the header a caller switches on is part of the value
		if v.Type != 1 || v.Length != 8 {
			xfail("goto-table instruction with header type %d length %d (want 1, 8)", v.Type, v.Length)
		}
		return spec.N("instr.goto_table", spec.U("table_id", uint64(v.TableId)))
	case *of.InstrWriteMetadata:
		if v.Type != 2 || v.Length != 24 {
			xfail("write-metadata instruction with header type %d length %d (want 2, 24)", v.Type, v.Length)
		}
		return spec.N("instr.write_metadata", spec.U("metadata", v.Metadata), spec.U("metadata_mask", v.MetadataMask))
	case *of.InstrActions:
		k, ok := map[uint16]string{3: "instr.write_actions", 4: "instr.apply_actions", 5: "instr.clear_actions"}[v.Type]
		if !ok {
			xfail("InstrActions with type %d", v.Type)
		}
		n := spec.N(k)
		for _, a := range v.Actions {
			n.Add(extractAction(a))
		}
		return n
	case *of.InstrMeter:
		if v.Type != 6 || v.Length != 8 {
			xfail("meter instruction with header type %d length %d (want 6, 8)", v.Type, v.Length)
		}
		return spec.N("instr.meter", spec.U("meter_id", uint64(v.MeterId)))
	}
	xfail("no extractor for instruction %T", i)
	return nil
}

func hdrWord(f *of.MatchField) uint64 {
	if f == nil {
		xfail("nil field header")
	}
	return uint64(f.MarshalHeader())
}

func extractAction(a of.Action) *spec.Node {
	if a == nil || (reflect.ValueOf(a).Kind() == reflect.Ptr && reflect.ValueOf(a).IsNil()) {
		xfail("nil action")
	}
	switch v := a.(type) {
	case *of.ActionOutput:
		return spec.N("act.output", spec.U("port", uint64(v.Port)), spec.U("max_len", uint64(v.MaxLen)))
	case *of.ActionHeader:
		k, ok := map[uint16]string{11: "act.copy_ttl_out", 12: "act.copy_ttl_in", 16: "act.dec_mpls_ttl", 27: "act.pop_pbb"}[v.Type]
		if !ok {
			xfail("bare ActionHeader of type %d", v.Type)
		}
		return spec.N(k)
	case *of.ActionSetqueue:
		return spec.N("act.set_queue", spec.U("queue_id", uint64(v.QueueId)))
	case *of.ActionGroup:
		return spec.N("act.group", spec.U("group_id", uint64(v.GroupId)))
	case *of.ActionDecNwTtl:
		return spec.N("act.dec_nw_ttl")
	case *of.ActionPopVlan:
		return spec.N("act.pop_vlan")
	case *of.ActionPush:
		k, ok := map[uint16]string{17: "act.push_vlan", 19: "act.push_mpls", 26: "act.push_pbb"}[v.Type]
		if !ok {
			xfail("ActionPush of type %d", v.Type)
		}
		return spec.N(k, spec.U("ethertype", uint64(v.EtherType)))
	case *of.ActionPopMpls:
		return spec.N("act.pop_mpls", spec.U("ethertype", uint64(v.EtherType)))
	case *of.ActionMplsTtl:
		return spec.N("act.set_mpls_ttl", spec.U("ttl", uint64(v.MplsTtl)))
	case *of.ActionNwTtl:
		return spec.N("act.set_nw_ttl", spec.U("ttl", uint64(v.NwTtl)))
	case *of.ActionSetField:
		return spec.N("act.set_field").Add(extractField(&v.Field))
	case *of.NXActionConjunction:
		return spec.N("nx.conjunction", spec.U("clause", uint64(v.Clause)), spec.U("n_clauses", uint64(v.NClause)), spec.U("id", uint64(v.ID)))
	case *of.NXActionRegLoad:
		return spec.N("nx.reg_load", spec.U("ofs_nbits", uint64(v.OfsNbits)), spec.U("dst", hdrWord(v.DstReg)), spec.U("value", v.Value))
	case *of.NXActionRegMove:
		return spec.N("nx.reg_move", spec.U("n_bits", uint64(v.Nbits)), spec.U("src_ofs", uint64(v.SrcOfs)), spec.U("dst_ofs", uint64(v.DstOfs)), spec.U("src", hdrWord(v.SrcField)), spec.U("dst", hdrWord(v.DstField)))
	case *of.NXActionResubmit:
		return spec.N("nx.resubmit", spec.U("in_port", uint64(v.InPort)), spec.U("table", 0))
	case *of.NXActionResubmitTable:
		k := "nx.resubmit_table"
		if v.IsCT() {
			k = "nx.ct_resubmit"
		}
		return spec.N(k, spec.U("in_port", uint64(v.InPort)), spec.U("table", uint64(v.TableID)))
	case *of.NXActionOutputReg:
		return spec.N("nx.output_reg", spec.U("ofs_nbits", uint64(v.OfsNbits)), spec.U("src", hdrWord(v.SrcField)), spec.U("max_len", uint64(v.MaxLen)))
	case *of.NXActionCTClear:
		return spec.N("nx.ct_clear")
	case *of.NXActionDecTTL:
		return spec.N("nx.dec_ttl")
	case *of.NXActionDecTTLCntIDs:
		ids := unexp(v, "cntIDs")
		var w []byte
		for i := 0; i < ids.Len(); i++ {
			x := ids.Index(i).Uint()
			w = append(w, byte(x>>8), byte(x))
		}
		return spec.N("nx.dec_ttl_cnt_ids", spec.U("n_controllers", unexp(v, "controllers").Uint()), spec.B("ids", w))
	case *of.NXActionController:
		return spec.N("nx.controller", spec.U("max_len", uint64(v.MaxLen)), spec.U("controller_id", uint64(v.ControllerID)), spec.U("reason", uint64(v.Reason)))
	case *of.NXActionNote:
		return spec.N("nx.note", spec.B("note", v.Note))
	case *of.NXActionRegLoad2:
		if v.DstField == nil {
			xfail("reg_load2 without field")
		}
		return spec.N("nx.reg_load2").Add(extractField(v.DstField))
	case *of.NXActionLearn:
		n := spec.N("nx.learn", spec.U("idle_timeout", uint64(v.IdleTimeout)), spec.U("hard_timeout", uint64(v.HardTimeout)), spec.U("priority", uint64(v.Priority)),
			spec.U("cookie", v.Cookie), spec.U("flags", uint64(v.Flags)), spec.U("table_id", uint64(v.TableID)),
			spec.U("fin_idle_timeout", uint64(v.FinIdleTimeout)), spec.U("fin_hard_timeout", uint64(v.FinHardTimeout)))
		for _, s := range v.LearnSpecs {
			h := reflect.ValueOf(s.Header).Elem()
			src, dst, out := h.FieldByName("src").Bool(), h.FieldByName("dst").Bool(), h.FieldByName("output").Bool()
			nb := h.FieldByName("nBits").Uint()
			sk, dk := uint64(0), uint64(0)
			if src {
				sk = 1
			}
			if dst {
				dk = 1
			}
			if out {
				dk = 2
			}
			sn := spec.N("learn_spec", spec.U("src_kind", sk), spec.U("dst_kind", dk), spec.U("n_bits", nb))
			if src {
				sn.With(spec.B("src_value", s.SrcValue))
			} else {
				if s.SrcField == nil {
					xfail("learn spec without source field")
				}
				sn.With(spec.U("src_field", hdrWord(s.SrcField.Field)), spec.U("src_ofs", uint64(s.SrcField.Ofs)))
			}
			if !out {
				if s.DstField == nil {
					xfail("learn spec without destination field")
				}
				sn.With(spec.U("dst_field", hdrWord(s.DstField.Field)), spec.U("dst_ofs", uint64(s.DstField.Ofs)))
			}
			n.Add(sn)
		}
		return n
	case *of.NXActionCTNAT:
		rp := unexp(v, "rangePresent").Uint()
		n := spec.N("nx.nat", spec.U("flags", uint64(v.Flags)), spec.U("range_present", rp))
		ipf := func(name string, w int) []byte {
			b := unexp(v, name).Bytes()
			if w == 4 {
				return ip4(net.IP(b))
			}
			return fix(b, 16)
		}
		if rp&1 != 0 {
			n.With(spec.B("ipv4_min", ipf("rangeIPv4Min", 4)))
		}
		if rp&2 != 0 {
			n.With(spec.B("ipv4_max", ipf("rangeIPv4Max", 4)))
		}
		if rp&4 != 0 {
			n.With(spec.B("ipv6_min", ipf("rangeIPv6Min", 16)))
		}
		if rp&8 != 0 {
			n.With(spec.B("ipv6_max", ipf("rangeIPv6Max", 16)))
		}
		port := func(name string) []byte {
			p := unexp(v, name)
			if p.IsNil() {
				xfail("nat %s flagged present but nil", name)
			}
			x := p.Elem().Uint()
			return []byte{byte(x >> 8), byte(x)}
		}
		if rp&16 != 0 {
			n.With(spec.B("proto_min", port("rangeProtoMin")))
		}
		if rp&32 != 0 {
			n.With(spec.B("proto_max", port("rangeProtoMax")))
		}
		return n
	case *of.NXActionConnTrack:
		n := spec.N("nx.ct", spec.U("flags", uint64(v.Flags)), spec.U("zone_src", uint64(v.ZoneSrc)), spec.U("zone_ofs_nbits", uint64(v.ZoneOfsNbits)),
			spec.U("recirc_table", uint64(v.RecircTable)), spec.U("alg", uint64(v.Alg)))
		acts := unexp(v, "actions")
		for i := 0; i < acts.Len(); i++ {
			// the nested list is unexported: re-wrap each element through its interface value
			e := acts.Index(i)
			n.Add(extractAction(ifaceAction(e)))
		}
		return n
	}
	xfail("no extractor for action %T", a)
	return nil
}

// ifaceAction recovers an of.Action from an unexported interface-typed slice
// element (read-only: the pointer it holds is re-wrapped, nothing is modified).
func ifaceAction(e reflect.Value) of.Action {
	if e.IsNil() {
		xfail("nil nested action")
	}
	p := e.Elem() // concrete *T
	np := reflect.NewAt(p.Type().Elem(), p.UnsafePointer())
	a, ok := np.Interface().(of.Action)
	if !ok {
		xfail("nested value %s is not an action", p.Type())
	}
	return a
}

// addrValues walks a parsed message and checks every match-field payload that
// holds one exported integer (of the width it encodes to: the field is the wire
// value) or an address in a Go address type: a net.IP must be a valid address value
// (4 or 16 bytes) and denote the bytes the payload encodes to, a
// net.HardwareAddr must be those bytes. The tree comparison reads payloads
// through their own encoders, which copy a fixed number of bytes and so cannot
// see an address slice of the wrong length (ip.To16() of a 17-byte net.IP is
// nil: the value is useless to the caller although it re-encodes correctly).
func addrValues(v any) string {
	var bad string
	var walk func(rv reflect.Value, depth int)
	checkField := func(f *of.MatchField) {
		for _, pl := range []util.Message{f.Value, f.Mask} {
			if pl == nil || (reflect.ValueOf(pl).Kind() == reflect.Ptr && reflect.ValueOf(pl).IsNil()) {
				continue
			}
			pv := reflect.ValueOf(pl)
			for pv.Kind() == reflect.Ptr {
				pv = pv.Elem()
			}
			if pv.Kind() != reflect.Struct || pv.NumField() != 1 || !pv.Type().Field(0).IsExported() {
				continue
			}
			enc, err := pl.MarshalBinary()
			if err != nil {
				continue
			}
			switch a := pv.Field(0).Interface().(type) {
			case net.IP:
				var norm net.IP
				if len(enc) == 4 {
					norm = a.To4()
				} else if len(enc) == 16 && len(a) == 16 {
					norm = a
				}
				if norm == nil || !bytes.Equal(norm, enc) {
					bad = fmt.Sprintf("%T holds a net.IP of %d bytes (%x) for the %d wire bytes %x", pl, len(a), []byte(a), len(enc), enc)
				}
			case net.HardwareAddr:
				if !bytes.Equal(a, enc) {
					bad = fmt.Sprintf("%T holds a net.HardwareAddr of %d bytes (%x) for the %d wire bytes %x", pl, len(a), []byte(a), len(enc), enc)
				}
			case uint8, uint16, uint32, uint64:
				// an integer payload whose encoding has the integer's own width holds the wire value itself
				fv := pv.Field(0)
				if w := int(fv.Type().Size()); w == len(enc) {
					if got := getN(enc, 0, w); got != fv.Uint() {
						bad = fmt.Sprintf("%T holds %#x for the wire bytes %x", pl, fv.Uint(), enc)
					}
				}
			}
		}
	}
	tField := reflect.TypeOf(of.MatchField{})
	walk = func(rv reflect.Value, depth int) {
		if depth > 12 || bad != "" {
			return
		}
		switch rv.Kind() {
		case reflect.Ptr, reflect.Interface:
			if !rv.IsNil() {
				walk(rv.Elem(), depth+1)
			}
		case reflect.Struct:
			if rv.Type() == tField {
				if rv.CanAddr() {
					checkField(rv.Addr().Interface().(*of.MatchField))
				} else {
					f := rv.Interface().(of.MatchField)
					checkField(&f)
				}
				return
			}
			for i := 0; i < rv.NumField(); i++ {
				if rv.Type().Field(i).IsExported() {
					walk(rv.Field(i), depth+1)
				}
			}
		case reflect.Slice, reflect.Array:
			if rv.Type().Elem().Kind() == reflect.Uint8 {
				return
			}
			for i := 0; i < rv.Len(); i++ {
				walk(rv.Index(i), depth+1)
			}
		}
	}
	walk(reflect.ValueOf(v), 0)
	return bad
}
