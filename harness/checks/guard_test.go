package checks

import (
	"encoding/hex"
	"encoding/json"
	"fmt"
	"os"
	"path/filepath"
	"runtime"
	"runtime/debug"
	"runtime/metrics"
	"strings"
	"sync"
	"time"

	"verifharness/ev"
)

// Totality monitor (DESIGN.md 4.4). A case runs on its own goroutine:
//
//	panic    recovered, first library frame recorded
//	hang     no return within hangLimit (20 s; normal cost is us..ms). A spinning goroutine cannot be
//	         killed, so the monitor records the violation with the input, flushes the evidence fragment
//	         and terminates the process.
//	heap     live heap grows by more than heapLimit (1 GiB) during one case (sampled while the case is slow)
//	alloc    cumulative allocation of the case > allocPerByte*len(input) + allocConst: a deterministic
//	         proxy for "work proportional to the input"
const (
	hangLimit    = 20 * time.Second
	heapLimit    = 1 << 30
	allocPerByte = 1024
	allocConst   = 4 << 20
)

type outcome struct {
	panicFrame string
	panicMsg   string
	hung       bool
	heap       bool
	alloc      uint64
	dur        time.Duration
}

var allocSample = []metrics.Sample{{Name: "/gc/heap/allocs:bytes"}}
var allocMu sync.Mutex

func allocBytes() uint64 {
	allocMu.Lock()
	defer allocMu.Unlock()
	metrics.Read(allocSample)
	return allocSample[0].Value.Uint64()
}

func liveHeap() uint64 {
	var ms runtime.MemStats
	runtime.ReadMemStats(&ms)
	return ms.HeapAlloc
}

// guarded runs f under the monitor.
func guarded(f func()) (o outcome) {
	done := make(chan struct{})
	var pf, pm string
	a0 := allocBytes()
	t0 := time.Now()
	go func() {
		defer func() {
			if r := recover(); r != nil {
				pf, pm = libFrameFromStack(string(debug.Stack())), fmt.Sprint(r)
			}
			close(done)
		}()
		f()
	}()
	fast := time.NewTimer(100 * time.Millisecond)
	select {
	case <-done:
		fast.Stop()
	case <-fast.C:
		h0 := liveHeap()
		tick := time.NewTicker(20 * time.Millisecond)
		defer tick.Stop()
	loop:
		for {
			select {
			case <-done:
				break loop
			case <-tick.C:
				if time.Since(t0) > hangLimit {
					o.hung = true
					break loop
				}
				if h := liveHeap(); h > h0 && h-h0 > heapLimit {
					o.heap = true
					break loop
				}
			}
		}
	}
	o.dur = time.Since(t0)
	o.alloc = allocBytes() - a0
	o.panicFrame, o.panicMsg = pf, pm
	return
}

// libFrameFromStack extracts the first library function from a debug.Stack()
// taken inside the recovering goroutine (names only, never line numbers).
func libFrameFromStack(st string) string {
	for _, line := range strings.Split(st, "\n") {
		if i := strings.Index(line, "github.com/contiv/libOpenflow/"); i >= 0 && !strings.HasPrefix(line, "\t") {
			fn := line[i+len("github.com/contiv/libOpenflow/"):]
			if j := strings.LastIndex(fn, "("); j > 0 {
				fn = fn[:j]
			}
			return fn
		}
	}
	return "?"
}

// judgeTotality turns an outcome into (symptom, detail); "" when the case held.
func judgeTotality(o outcome, inputLen int) (string, string) {
	switch {
	case o.hung:
		return "hang", fmt.Sprintf("no return within %s on %d input bytes", hangLimit, inputLen)
	case o.heap:
		return "heap", fmt.Sprintf("live heap grew by more than %d MiB on %d input bytes", heapLimit>>20, inputLen)
	case o.panicFrame != "":
		return "panic|" + o.panicFrame, o.panicMsg
	case o.alloc > uint64(allocPerByte*inputLen+allocConst):
		return "superlinear-alloc", fmt.Sprintf("%d bytes allocated for %d input bytes (envelope %d*len+%d MiB); %s", o.alloc, inputLen, allocPerByte, allocConst>>20, o.dur)
	}
	return "", ""
}

// fatalTotality is used for hang/heap: the process cannot continue (a goroutine
// is still spinning), so the violation is recorded with the input, the fragment
// is flushed and the process ends. A listed known finding ends the process too
// (exit 3, which the driver reports as inconclusive for the remaining cases).
func fatalTotality(c *ev.Collector, sig, detail string, input []byte, extra map[string]any) {
	rep := map[string]any{"hex": hex.EncodeToString(input)}
	for k, v := range extra {
		rep[k] = v
	}
	known := c.Report(nil, sig, detail, rep)
	if dir := os.Getenv("VERIF_FRAG"); dir != "" {
		p := filepath.Join(filepath.Dir(dir), "hang-input.json")
		b, _ := json.Marshal(rep)
		os.WriteFile(p, b, 0o644)
	}
	c.Flush()
	if known {
		os.Exit(3)
	}
	fmt.Fprintf(os.Stderr, "VIOLATION sig=%s :: %s\n", sig, detail)
	os.Exit(1)
}

// Per-case watchdog for the checks that do not run every library call under
// guarded(): a generated case that keeps the library busy for caseLimit, or during
// which the live heap grows by more than caseHeapLimit, is a violation of the property the
// case belongs to (a value the property quantifies over cannot be built, encoded
// or decoded in bounded time and memory) - provided a goroutine is found inside
// library code. Otherwise the process ends as inconclusive (exit 2).
const (
	caseLimit     = 150 * time.Second
	caseHeapLimit = 3 << 30
)

var caseWD struct {
	once  sync.Once
	mu    sync.Mutex
	armed bool
	seq   uint64
	start time.Time
	c     *ev.Collector
}

func caseArm(c *ev.Collector) {
	caseWD.once.Do(func() {
		go func() {
			var seenSeq, base uint64
			for range time.Tick(250 * time.Millisecond) {
				caseWD.mu.Lock()
				armed, seq, start, col := caseWD.armed, caseWD.seq, caseWD.start, caseWD.c
				caseWD.mu.Unlock()
				if !armed {
					continue
				}
				if seq != seenSeq {
					// first look at this case: its heap baseline (what the process holds already - rapid's
					// state, the evidence collector, garbage not yet collected - is not the case's doing)
					seenSeq, base = seq, liveHeap()
					continue
				}
				switch {
				case time.Since(start) > caseLimit:
					caseTrip(col, "hang", fmt.Sprintf("a generated case has kept running for more than %s", caseLimit))
				case liveHeap() > base+caseHeapLimit:
					caseTrip(col, "heap", fmt.Sprintf("the live heap grew by more than %d GiB during one generated case", caseHeapLimit>>30))
				}
			}
		}()
	})
	caseWD.mu.Lock()
	caseWD.armed, caseWD.start, caseWD.c = true, time.Now(), c
	caseWD.seq++
	caseWD.mu.Unlock()
}

func caseDisarm() {
	caseWD.mu.Lock()
	caseWD.armed = false
	caseWD.mu.Unlock()
}

func caseTrip(c *ev.Collector, what, detail string) {
	buf := make([]byte, 8<<20)
	buf = buf[:runtime.Stack(buf, true)]
	frame := ""
	// a goroutine that is executing (or spinning on a lock) inside the library
	for _, states := range [][]string{{"running", "runnable"}, {"semacquire", "sync.Mutex.Lock", "sync.RWMutex", "sleep"}} {
		for _, g := range strings.Split(string(buf), "\n\n") {
			head, _, _ := strings.Cut(g, "\n")
			ok := false
			for _, s := range states {
				if strings.Contains(head, "["+s) {
					ok = true
				}
			}
			if !ok || strings.Contains(g, "checks.caseTrip") {
				continue
			}
			if fr := libFrameFromStack(g); fr != "?" {
				frame = fr
				break
			}
		}
		if frame != "" {
			break
		}
	}
	if frame == "" {
		fmt.Fprintf(os.Stderr, "INCONCLUSIVE: %s, but no goroutine is inside library code\n%s\n", detail, clipStr(string(buf), 6000))
		os.Exit(2)
	}
	fatalTotality(c, c.Property+"|"+what+"-on-generated-input|"+frame, detail+"; a goroutine is inside "+frame, nil, map[string]any{"stacks": clipStr(string(buf), 6000)})
}

func clipStr(s string, n int) string {
	if len(s) > n {
		return s[:n] + "..."
	}
	return s
}
