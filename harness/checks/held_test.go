package checks

import (
	"bytes"
	"fmt"
	"reflect"

	of "github.com/contiv/libOpenflow/openflow13"
	"github.com/contiv/libOpenflow/util"
	"verifharness/ev"
)

// Held results: a match field a builder returned is the caller's for as long
// as the caller keeps it. The builder checks judge a result right after the
// call; a result that is right then and is changed by LATER calls of the same
// builder (a shared registry entry handed out instead of a copy, payload
// objects carved from a recycled arena) is seen only by keeping results and
// looking again. Each test keeps a ring of the last results with the bytes
// they encoded to when they were judged, and re-encodes all of them at the
// start of every case.
type heldField struct {
	f    *of.MatchField
	want []byte
	what string
}

type heldRing struct {
	items []heldField
	next  int
	cap   int
}

func newHeldRing(n int) *heldRing { return &heldRing{cap: n} }

func (h *heldRing) hold(f *of.MatchField, what string) {
	if f == nil {
		return
	}
	b, err := f.MarshalBinary()
	if err != nil {
		return
	}
	it := heldField{f, append([]byte{}, b...), what}
	for i := range b {
		b[i] = 0x5A // what an encoder returned is the caller's to reuse (a frame buffer written in place)
	}
	// the same for the payload objects' own encodings (a caller that patches a value's bytes before sending them)
	for _, pl := range []util.Message{f.Value, f.Mask} {
		if pl == nil || (reflect.ValueOf(pl).Kind() == reflect.Ptr && reflect.ValueOf(pl).IsNil()) {
			continue
		}
		if pb, err := pl.MarshalBinary(); err == nil {
			for i := range pb {
				pb[i] = 0x5A
			}
		}
	}
	if len(h.items) < h.cap {
		h.items = append(h.items, it)
		return
	}
	h.items[h.next] = it
	h.next = (h.next + 1) % h.cap
}

// check re-encodes every held field; the first one that changed is reported.
func (h *heldRing) check(c *ev.Collector, t ev.Fataler, prop string) bool {
	for i := range h.items {
		it := &h.items[i]
		var b []byte
		var err error
		if fr, msg := safeCall(func() { b, err = it.f.MarshalBinary() }); fr != "" {
			c.Report(t, prop+"|held-result|encode-panic|"+fr, fmt.Sprintf("%s: a result kept from an earlier call no longer encodes: %s", it.what, msg), it.what)
			return false
		}
		if err != nil || !bytes.Equal(b, it.want) {
			c.Report(t, prop+"|held-result|changed-by-later-calls", fmt.Sprintf("%s: encoded %s when it was returned, %s (err %v) after %d later results of the same builder", it.what, hx(it.want), hx(b), err, len(h.items)), it.what)
			return false
		}
	}
	c.LabelN("held_results_rechecked", int64(len(h.items)))
	return true
}
