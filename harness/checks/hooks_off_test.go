//go:build !verif

package checks

import (
	"sort"

	of "github.com/contiv/libOpenflow/openflow13"
	"verifharness/spec"
)

// Substitutes for the verification hooks, used when the driver had to build
// without the verif tag (the hook files in the library no longer compile).
// Everything here goes through the public API; what only a hook can do is
// skipped and the evidence says so (label "hooks_unavailable").
const hooksAvailable = false

// the registered names that the transcribed table knows (names outside it cannot be enumerated without the hook)
func hookRegisteredNames() []string {
	var names []string
	for n := range spec.OXMByName {
		if f, err := of.FindFieldHeaderByName(n, false); err == nil && f != nil {
			names = append(names, n)
		}
	}
	sort.Strings(names)
	return names
}

// the stored entry is not reachable: a fresh unmasked lookup stands in for it
func hookRegistryEntry(name string) (class uint16, field uint8, length uint8, hasMask bool, ok bool) {
	f, err := of.FindFieldHeaderByName(name, false)
	if err != nil || f == nil {
		return 0, 0, 0, false, false
	}
	return f.Class, f.Field, f.Length, f.HasMask, true
}

// the unexported encoders and decoders through their public users
func hookEncodeOfsNbits(ofs, nBits uint16) uint16 {
	return of.NewNXRangeByOfsNBits(int(ofs), int(nBits)).ToOfsBits()
}
func hookEncodeOfsNbitsStartEnd(start, end uint16) uint16 {
	return of.NewNXRange(int(start), int(end)).ToOfsBits()
}
func hookDecodeOfs(w uint16) uint16   { return w >> 6 }     // no public user: the check's own inverse (vacuous, counted as such)
func hookDecodeNbits(w uint16) uint16 { return w&0x3f + 1 } // idem
func hookSetXidCounter(v uint32) bool { return false }
