//go:build verif

package checks

import (
	"github.com/contiv/libOpenflow/common"
	of "github.com/contiv/libOpenflow/openflow13"
)

// The library's verification hooks (build tag verif; /repo/*/verif_hooks.go).
// The checks reach them only through these wrappers, so that the same checks
// still build - with the public-API substitutes of hooks_off_test.go - against
// a tree in which the hooks no longer compile (renamed internals).
const hooksAvailable = true

func hookRegisteredNames() []string { return of.VerifRegisteredFieldNames() }
func hookRegistryEntry(name string) (class uint16, field uint8, length uint8, hasMask bool, ok bool) {
	return of.VerifRegistryEntry(name)
}
func hookEncodeOfsNbits(ofs, nBits uint16) uint16 { return of.VerifEncodeOfsNbits(ofs, nBits) }
func hookEncodeOfsNbitsStartEnd(start, end uint16) uint16 {
	return of.VerifEncodeOfsNbitsStartEnd(start, end)
}
func hookDecodeOfs(w uint16) uint16   { return of.VerifDecodeOfs(w) }
func hookDecodeNbits(w uint16) uint16 { return of.VerifDecodeNbits(w) }
func hookSetXidCounter(v uint32) bool { common.VerifSetXidCounter(v); return true }
