package checks

import (
	"encoding/binary"
	"fmt"
	"strings"

	"pgregory.net/rapid"
	"verifharness/gen"
	"verifharness/spec"
)

// Hostile input generators (DESIGN.md section 5): every random choice goes
// through rapid, so cases shrink and replay.
//
//	L1 field-aware  a conformant frame (model encoder) with 1..3 structural fields (length / count / type /
//	                subtype / vendor slots reported by the model's decoder) overridden from the boundary set
//	L2 byte-level   truncation, overwrite of an aligned 8/16/32-bit window with boundary values, splice of two frames
//	L3 raw          arbitrary bytes behind an 8-byte header of any type code
//	L4 amplify      an element (valid or already mutated) repeated until the frame approaches 64 KiB

type hostile struct {
	b     []byte
	kind  string   // seed kind
	muts  []string // what was done
	valid bool     // no mutation applied (a conformant frame)
}

// seedFrame draws a conformant frame of any kind (controller- or
// switch-originated) from the model's encoder, with the structural slots.
func seedFrame(rt *rapid.T, budget int) (b []byte, kind string, slots []spec.Slot) {
	return seedFrameOf(rt, budget, "")
}

func seedFrameOf(rt *rapid.T, budget int, want string) (b []byte, kind string, slots []spec.Slot) {
	for try := 0; ; try++ {
		var tree *spec.Node
		if want != "" {
			g := gen.New(rt, budget)
			sm := g.SwitchMessageOf(want)
			injectONFFields(rt, g, sm.Tree)
			tree, kind = sm.Tree, sm.Kind
		} else if rapid.Bool().Draw(rt, "switch_side") {
			g := gen.New(rt, budget)
			sm := g.SwitchMessage()
			injectONFFields(rt, g, sm.Tree)
			tree, kind = sm.Tree, sm.Kind
		} else {
			g := gen.New(rt, budget)
			_, n, k := g.Message()
			tree, kind = n, k
		}
		enc, big := encodeModel(tree)
		if big {
			if try > 4 {
				panic("cannot draw a seed frame within 65535 bytes")
			}
			continue
		}
		_, sl, _ := spec.Decode(enc)
		if o := packetInPayloadOffset(enc); o >= 0 {
			// packet-in: the length-like fields of the carried packet are structural too; give them
			// the same weight as the OpenFlow slots
			ps := pktSlots(enc[o:], o)
			for len(ps) > 0 && len(ps) < len(sl) {
				ps = append(ps, ps...)
			}
			sl = append(sl, ps...)
		}
		return enc, kind, sl
	}
}

func boundary(rt *rapid.T, l string, width int, cur uint64, remaining int) uint64 {
	max := uint64(1)<<(8*uint(width)) - 1
	rem := uint64(remaining)
	var cands []uint64
	switch width {
	case 1:
		// one-byte length/type fields: the interesting values are few (wrap-around at 254/255, units of 4 or 8 bytes)
		cands = []uint64{0, 1, 2, cur - 1, cur + 1, 127, 128, 253, 254, 255, rem, rem / 4, rem / 8, rem/8 - 1, rem/8 + 1, 4, 5, 15}
	case 2:
		cands = []uint64{0, 1, 2, 3, 4, 7, 8, 9, 15, 16, cur - 1, cur + 1, cur - 8, cur + 8, cur ^ 1, 0x7fff, 0x8000, 0x4000, 0x2000, 0xfff7, 0xfff8, 0xfff9, 0xfffe, 0xffff,
			rem, rem + 1, rem - 1, rem + 8, rem - 8, 254, 255, 256}
	default:
		cands = []uint64{0, 1, 2, 8, cur - 1, cur + 1, cur ^ 1, max, max - 1, max - 7, max >> 1, max>>1 + 1, rem, rem + 1, 0xffff, 0x10000, 0xfff8}
	}
	if gen.Pick(rt, l+"_rnd", 8) == 0 {
		return rapid.Uint64().Draw(rt, l+"_any") & max
	}
	return cands[gen.Pick(rt, l, len(cands))] & max
}

func putN(b []byte, off, width int, v uint64) {
	for i := width - 1; i >= 0; i-- {
		b[off+i] = byte(v)
		v >>= 8
	}
}

func getN(b []byte, off, width int) uint64 {
	var v uint64
	for i := 0; i < width; i++ {
		v = v<<8 | uint64(b[off+i])
	}
	return v
}

// mutateFrame applies the hostile layers to a conformant frame.
func mutateFrame(rt *rapid.T, b []byte, slots []spec.Slot, muts *[]string) []byte {
	b = append([]byte{}, b...)
	nm := 1 + gen.Pick(rt, "n_mut", 3)
	for i := 0; i < nm && len(b) > 0; i++ {
		switch m := gen.Pick(rt, "layer", 10); {
		case m <= 4 && len(slots) > 0: // L1
			s := slots[gen.Pick(rt, "slot", len(slots))]
			if s.Off+s.Width > len(b) {
				continue
			}
			cur := getN(b, s.Off, s.Width)
			v := boundary(rt, "slotval", s.Width, cur, len(b)-s.Off)
			if s.Class == "len" && s.Width == 2 {
				// A container that adds up its children's claimed lengths in 16 bits wraps to 0 (or to a small
				// value) when one child claims 65536 minus the rest: for every enclosing length field L, the values
				// that make L - cur + v come out as 0, 8 or the container's bare header.
				var wraps []uint64
				for _, t := range slots {
					if t.Class == "len" && t.Width == 2 && t.Off < s.Off && t.Off+2 <= len(b) {
						if L := getN(b, t.Off, 2); int(L) > s.Off-t.Off && L >= cur {
							for _, k := range []uint64{0, 4, 8, 16} {
								wraps = append(wraps, (cur-L+k)&0xffff, (cur-L-k)&0xffff)
							}
						}
					}
				}
				if len(wraps) > 0 && gen.Pick(rt, "wrap_container", 3) == 0 {
					v = wraps[gen.Pick(rt, "wrap_value", len(wraps))]
				}
			}
			if (s.Class == "type" || s.Class == "subtype") && s.Width <= 2 && rapid.Bool().Draw(rt, "type_dense") {
				// type / subtype codes: every code of the populated range, not only the neighbours of the
				// current one (message types 0-29, action types 0-27, Nicira subtypes 0-50: the codes a
				// dispatcher knows but has no decoder for sit in between)
				v = uint64(rapid.IntRange(0, 52).Draw(rt, "type_code_dense"))
			}
			putN(b, s.Off, s.Width, v)
			*muts = append(*muts, fmt.Sprintf("slot %s@%d(%s,%dB) %#x->%#x", s.Class, s.Off, tailPath(s.Path), s.Width, cur, v))
			// adjacent pair: also hit a neighbouring slot half of the time (type+len, len+next type): several
			// defects need two fields to agree (an extension header of length 255 whose next header is itself)
			if rapid.Bool().Draw(rt, "adjacent") {
				for _, t := range slots {
					if (t.Off == s.Off+s.Width || t.Off+t.Width == s.Off) && t.Off+t.Width <= len(b) && t.Off >= 0 {
						c2 := getN(b, t.Off, t.Width)
						v2 := boundary(rt, "slotval2", t.Width, c2, len(b)-t.Off)
						if t.Class == "type" && rapid.Bool().Draw(rt, "type_small") {
							v2 = uint64(gen.Pick(rt, "type_code", 4)) // low type codes are the populated ones
						}
						putN(b, t.Off, t.Width, v2)
						*muts = append(*muts, fmt.Sprintf("slot %s@%d(%s,%dB) %#x->%#x", t.Class, t.Off, tailPath(t.Path), t.Width, c2, v2))
						break
					}
				}
			}
		case m == 5: // truncate
			at := rapid.IntRange(0, len(b)).Draw(rt, "trunc_at")
			b = b[:at]
			*muts = append(*muts, fmt.Sprintf("truncate@%d", at))
			if rapid.Bool().Draw(rt, "fix_header_len") && len(b) >= 4 {
				binary.BigEndian.PutUint16(b[2:], uint16(len(b)))
				*muts = append(*muts, "header.length=len")
			}
		case m == 6 || m == 7: // aligned window overwrite
			w := []int{1, 2, 4}[gen.Pick(rt, "win_w", 3)]
			if len(b) < w {
				continue
			}
			off := rapid.IntRange(0, (len(b)-w)/w).Draw(rt, "win_off") * w
			cur := getN(b, off, w)
			v := boundary(rt, "winval", w, cur, len(b)-off)
			putN(b, off, w, v)
			*muts = append(*muts, fmt.Sprintf("bytes@%d(%dB) %#x->%#x", off, w, cur, v))
		case m == 8: // random byte flips
			k := 1 + gen.Pick(rt, "nflips", 4)
			for j := 0; j < k; j++ {
				off := rapid.IntRange(0, len(b)-1).Draw(rt, "flip_off")
				b[off] = rapid.Byte().Draw(rt, "flip_val")
			}
			*muts = append(*muts, fmt.Sprintf("%d random bytes", k))
		default: // L4 amplify an element region
			b = amplify(rt, b, slots, muts)
		}
	}
	return b
}

func tailPath(p string) string {
	return tail2(p)
}

// amplify repeats an element (found through its type/len slot pair) until the
// frame is close to the 64 KiB limit, then sets the header length to the new size.
func amplify(rt *rapid.T, b []byte, slots []spec.Slot, muts *[]string) []byte {
	type region struct{ off, n int }
	var regs []region
	for i := 0; i+1 < len(slots); i++ {
		s, t := slots[i], slots[i+1]
		if s.Class == "type" && t.Class == "len" && t.Off == s.Off+s.Width && t.Off+t.Width <= len(b) && s.Off >= 8 {
			n := int(getN(b, t.Off, t.Width))
			if t.Width == 1 {
				n += 4 // oxm: the length byte counts the payload only
			} else {
				n = (n + 7) / 8 * 8
			}
			if n >= 4 && s.Off+n <= len(b) {
				regs = append(regs, region{s.Off, n})
			}
		}
	}
	if len(regs) == 0 {
		// no element: repeat the tail after the header
		if len(b) <= 8 {
			return b
		}
		regs = append(regs, region{8, len(b) - 8})
	}
	r := regs[gen.Pick(rt, "amp_region", len(regs))]
	target := []int{65535, 65528, 65536 - r.n, 32768, 40000, 16384}[gen.Pick(rt, "amp_target", 6)]
	reps := (target - len(b)) / r.n
	if reps <= 0 {
		return b
	}
	if gen.Pick(rt, "amp_partial", 3) == 0 {
		reps = rapid.IntRange(1, reps).Draw(rt, "amp_reps")
	}
	out := make([]byte, 0, len(b)+reps*r.n)
	out = append(out, b[:r.off+r.n]...)
	for i := 0; i < reps; i++ {
		out = append(out, b[r.off:r.off+r.n]...)
	}
	out = append(out, b[r.off+r.n:]...)
	if len(out) > 65535 {
		out = out[:65535]
	}
	if gen.Pick(rt, "amp_fix_len", 4) != 0 {
		binary.BigEndian.PutUint16(out[2:], uint16(len(out)))
	}
	*muts = append(*muts, fmt.Sprintf("amplify region@%d(%dB) x%d -> %d bytes", r.off, r.n, reps, len(out)))
	return out
}

// hostileFrame draws one case of C07's domain.
func hostileFrame(rt *rapid.T) hostile {
	budget := 300
	switch gen.Pick(rt, "seed_size", 12) {
	case 0:
		budget = rapid.IntRange(4000, 60000).Draw(rt, "seed_budget_big")
	case 1, 2:
		budget = rapid.IntRange(600, 4000).Draw(rt, "seed_budget_mid")
	}
	switch gen.Pick(rt, "mode", 12) {
	case 0: // L3 raw behind a header
		n := rapid.IntRange(0, 200).Draw(rt, "raw_len")
		if gen.Pick(rt, "raw_big", 10) == 0 {
			n = rapid.IntRange(200, 65527).Draw(rt, "raw_len_big")
		}
		body := rapid.SliceOfN(rapid.Byte(), min(n, 64), min(n, 64)).Draw(rt, "raw")
		for len(body) < n {
			body = append(body, body[len(body)%64]^byte(len(body)>>6))
		}
		ty := rapid.IntRange(0, 40).Draw(rt, "raw_type")
		h := []byte{4, byte(ty), 0, 0, 0, 0, 0, 1}
		b := append(h, body...)
		l := len(b)
		if gen.Pick(rt, "raw_badlen", 4) == 0 {
			l = int(boundary(rt, "raw_len_field", 2, uint64(l), l))
		}
		binary.BigEndian.PutUint16(b[2:], uint16(l))
		if gen.Pick(rt, "raw_ver", 8) == 0 {
			b[0] = rapid.Byte().Draw(rt, "version")
		}
		return hostile{b: b, kind: fmt.Sprintf("raw(type=%d)", ty), muts: []string{"raw"}}
	case 1: // splice two frames
		b1, k1, _ := seedFrame(rt, budget)
		b2, k2, _ := seedFrame(rt, 300)
		at1 := rapid.IntRange(0, len(b1)).Draw(rt, "splice_at1")
		at2 := rapid.IntRange(0, len(b2)).Draw(rt, "splice_at2")
		b := append(append([]byte{}, b1[:at1]...), b2[at2:]...)
		if len(b) > 65535 {
			b = b[:65535]
		}
		if rapid.Bool().Draw(rt, "splice_fix_len") && len(b) >= 4 {
			binary.BigEndian.PutUint16(b[2:], uint16(len(b)))
		}
		return hostile{b: b, kind: k1 + "+" + k2, muts: []string{fmt.Sprintf("splice %d|%d", at1, at2)}}
	case 2: // conformant frame, untouched
		b, k, _ := seedFrame(rt, budget)
		return hostile{b: b, kind: k, valid: true}
	case 3: // L5: deep nesting with lying lengths
		if rapid.Bool().Draw(rt, "nest_bundles") {
			if h, ok := deepBundles(rt); ok {
				return h
			}
		}
		if h, ok := deepNest(rt); ok {
			return h
		}
	}
	want := ""
	switch gen.Pick(rt, "focus", 8) {
	case 0, 1:
		want = "packet_in" // the carried packet's own length fields are reached only here
	case 2:
		want = "mp_reply_flow"
	}
	b, k, slots := seedFrameOf(rt, budget, want)
	var muts []string
	b = mutateFrame(rt, b, slots, &muts)
	return hostile{b: b, kind: k, muts: muts}
}

// pktSlots walks an Ethernet frame by the RFC layouts (802.1Q, RFC 791, 8200,
// 826, 768, 793) and reports the positions of its length-, count- and
// type-like fields, relative to base. Used by C07 (packet-in payloads) and C08.
func pktSlots(p []byte, base int) []spec.Slot {
	var out []spec.Slot
	add := func(off, w int, class, path string) {
		if off+w <= len(p) {
			out = append(out, spec.Slot{Off: base + off, Width: w, Class: class, Path: "pkt/" + path})
		}
	}
	if len(p) < 14 {
		return out
	}
	add(12, 2, "type", "eth.ethertype")
	et := binary.BigEndian.Uint16(p[12:])
	off := 14
	if et == 0x8100 && len(p) >= 18 {
		add(14, 2, "tci", "vlan.tci")
		add(16, 2, "type", "vlan.ethertype")
		et = binary.BigEndian.Uint16(p[16:])
		off = 18
	}
	switch et {
	case 0x0800:
		out = append(out, ipv4Slots(p, off, base)...)
	case 0x86dd:
		out = append(out, ipv6Slots(p, off, base)...)
	case 0x0806:
		add(off+4, 1, "len", "arp.hlen")
		add(off+5, 1, "len", "arp.plen")
		add(off+6, 2, "type", "arp.oper")
	}
	return out
}

func l4Slots(p []byte, l4 int, proto byte, base int) []spec.Slot {
	var out []spec.Slot
	add := func(off, w int, class, path string) {
		if off+w <= len(p) {
			out = append(out, spec.Slot{Off: base + off, Width: w, Class: class, Path: "pkt/" + path})
		}
	}
	switch proto {
	case 17:
		add(l4+4, 2, "len", "udp.length")
	case 6:
		add(l4+12, 1, "len", "tcp.data_offset")
	case 1, 58:
		add(l4, 1, "type", "icmp.type")
	case 2:
		add(l4, 1, "type", "igmp.type")
	}
	return out
}

func ipv4Slots(p []byte, off, base int) []spec.Slot {
	var out []spec.Slot
	add := func(o, w int, class, path string) {
		if o+w <= len(p) {
			out = append(out, spec.Slot{Off: base + o, Width: w, Class: class, Path: "pkt/" + path})
		}
	}
	if off+20 > len(p) {
		return out
	}
	add(off, 1, "len", "ipv4.version_ihl")
	add(off+2, 2, "len", "ipv4.total_length")
	add(off+6, 2, "frag", "ipv4.flags_fragoff")
	add(off+9, 1, "type", "ipv4.protocol")
	ihl := int(p[off]&0xf) * 4
	return append(out, l4Slots(p, off+ihl, p[off+9], base)...)
}

func ipv6Slots(p []byte, off, base int) []spec.Slot {
	var out []spec.Slot
	add := func(o, w int, class, path string) {
		if o+w <= len(p) {
			out = append(out, spec.Slot{Off: base + o, Width: w, Class: class, Path: "pkt/" + path})
		}
	}
	if off+40 > len(p) {
		return out
	}
	add(off+4, 2, "len", "ipv6.payload_length")
	add(off+6, 1, "type", "ipv6.next_header")
	nh := p[off+6]
	o := off + 40
	for hops := 0; hops < 8 && o+2 <= len(p); hops++ {
		switch nh {
		case 0, 60: // hop-by-hop / destination options: TLV options inside
			add(o, 1, "type", "ipv6.ext.next_header")
			add(o+1, 1, "len", "ipv6.ext.hdr_ext_len")
			end := o + 8*(int(p[o+1])+1)
			for i := o + 2; i < end && i < len(p); {
				add(i, 1, "type", "ipv6.opt.type")
				if p[i] == 0 { // Pad1
					i++
					continue
				}
				add(i+1, 1, "len", "ipv6.opt.len")
				if i+1 >= len(p) {
					break
				}
				i += 2 + int(p[i+1])
			}
			nh, o = p[o], end
		case 43:
			add(o, 1, "type", "ipv6.ext.next_header")
			add(o+1, 1, "len", "ipv6.ext.hdr_ext_len")
			add(o+2, 1, "type", "ipv6.routing.type")
			add(o+3, 1, "len", "ipv6.routing.segments_left")
			nh, o = p[o], o+8*(int(p[o+1])+1)
		case 44:
			add(o, 1, "type", "ipv6.ext.next_header")
			add(o+2, 2, "frag", "ipv6.frag.offset_m")
			nh, o = p[o], o+8
		default:
			return append(out, l4Slots(p, o, nh, base)...)
		}
	}
	return out
}

// packetInPayloadOffset returns the offset of the Ethernet frame inside a
// packet-in message (24 fixed bytes, padded match, 2 pad bytes), or -1.
func packetInPayloadOffset(b []byte) int {
	if len(b) < 32 || b[1] != 10 {
		return -1
	}
	ml := int(binary.BigEndian.Uint16(b[26:]))
	o := 24 + (ml+7)/8*8 + 2
	if o > len(b) {
		return -1
	}
	return o
}

// deepNest (L5): a flow-mod whose instruction carries a chain of 8..70 directly
// nested conntrack actions (each level may also hold a sibling action), with
// the length fields of many levels overridden - independently, or alternating
// between two values along the chain. A decoder that re-reads bytes it already
// consumed at each level turns such a chain into exponential work.
func deepNest(rt *rapid.T) (hostile, bool) {
	g := gen.New(rt, 300)
	_, tree := g.MessageOf("flow_mod")
	if len(tree.Kids) == 0 || tree.Kids[0].Kind != "match" {
		return hostile{}, false
	}
	depth := rapid.IntRange(8, 70).Draw(rt, "nest_depth")
	cur := spec.N("act.output", spec.U("port", 1), spec.U("max_len", 0xffff))
	for i := 0; i < depth; i++ {
		ct := spec.N("nx.ct", spec.U("flags", 0), spec.U("zone_src", 0), spec.U("zone_ofs_nbits", 0), spec.U("recirc_table", 0xff), spec.U("alg", 0))
		ct.Add(cur)
		if gen.Pick(rt, "sibling", 4) == 0 {
			ct.Add(spec.N("act.group", spec.U("group_id", uint64(i))))
		}
		cur = ct
	}
	tree.Kids = []*spec.Node{tree.Kids[0], spec.N("instr.apply_actions").Add(cur)}
	tree.Set("command", 0)
	b, big := encodeModel(tree)
	if big {
		return hostile{}, false
	}
	_, slots, _ := spec.Decode(b)
	var lens []spec.Slot
	for _, s := range slots {
		if s.Class == "len" && s.Width == 2 && strings.Contains(s.Path, "nx.ct") {
			lens = append(lens, s)
		}
	}
	if len(lens) < 4 {
		return hostile{}, false
	}
	muts := []string{fmt.Sprintf("deep-nest depth=%d", depth)}
	pick := func(l string, cur uint64, rem int) uint64 {
		c := []uint64{24, 32, 48, 96, cur - 8, cur + 8, cur - 16, cur + 48, uint64(rem), uint64(rem) - 8, cur / 2 &^ 7, 0x100}
		return c[gen.Pick(rt, l, len(c))]
	}
	if rapid.Bool().Draw(rt, "alternate") {
		from := rapid.IntRange(0, len(lens)/2).Draw(rt, "alt_from")
		v1 := pick("alt_v1", 96, 0)
		v2 := pick("alt_v2", 48, 0)
		for i := from; i < len(lens); i++ {
			v := v1
			if (i-from)%2 == 1 {
				v = v2
			}
			putN(b, lens[i].Off, 2, v)
		}
		muts = append(muts, fmt.Sprintf("alternating lengths %d/%d from level %d", v1, v2, from))
	} else {
		k := rapid.IntRange(1, len(lens)).Draw(rt, "nest_nmut")
		for j := 0; j < k; j++ {
			s := lens[gen.Pick(rt, "nest_level", len(lens))]
			cur := getN(b, s.Off, 2)
			putN(b, s.Off, 2, pick("nest_val", cur, len(b)-s.Off))
		}
		muts = append(muts, fmt.Sprintf("%d length fields of the chain overridden", k))
	}
	return hostile{b: b, kind: "flow_mod(deep ct chain)", muts: muts}, true
}

// deepBundles (L5b): a bundle-add nested in bundle-adds 8..60 levels deep, every
// level with 0..2 experimenter properties; conformant as generated (work must
// stay proportional to the frame), then optionally mutated like any other frame.
func deepBundles(rt *rapid.T) (hostile, bool) {
	// written by hand in the form the library itself reads and writes: the properties follow the carried
	// message directly; every length is kept a multiple of 8 (16-byte properties = 12-byte header + 4 data
	// bytes) so that a reader that expects 8-byte alignment agrees too
	depth := rapid.IntRange(8, 60).Draw(rt, "bundle_depth")
	everyLevel := rapid.Bool().Draw(rt, "props_every_level")
	cur := []byte{4, 20, 0, 8, 0, 0, 0, 1} // innermost: barrier request
	if rapid.Bool().Draw(rt, "innermost_echo") {
		cur = []byte{4, 2, 0, 16, 0, 0, 0, 1, 1, 2, 3, 4, 5, 6, 7, 8}
	}
	for i := 0; i < depth; i++ {
		nprops := gen.Pick(rt, "nprops", 3)
		if everyLevel && nprops == 0 {
			nprops = 1
		}
		n := 16 + 8 + len(cur) + 16*nprops
		if n > 65535 {
			break
		}
		b := make([]byte, 0, n)
		b = append(b, 4, 4, byte(n>>8), byte(n), 0, 0, byte(i>>8), byte(i))
		b = append(b, 0x4f, 0x4e, 0x46, 0x00, 0, 0, 0x08, 0xfd) // ONF, bundle add (2301)
		b = append(b, 0, 0, 0, byte(i), 0, 0, 0, 1)             // bundle id, pad, flags
		b = append(b, cur...)
		for j := 0; j < nprops; j++ {
			b = append(b, 0xff, 0xff, 0, 16, 0, 0, 0x12, 0x34, 0, 0, 0, byte(j), 0xa, 0xb, 0xc, 0xd)
		}
		cur = b
	}
	b := cur
	muts := []string{fmt.Sprintf("deep-bundles depth=%d props_every_level=%v", depth, everyLevel)}
	if gen.Pick(rt, "mutate_bundles", 3) == 0 {
		_, slots, _ := spec.Decode(b)
		b = mutateFrame(rt, b, slots, &muts)
	}
	return hostile{b: b, kind: "bundle_add(deep chain)", muts: muts}, true
}
