package checks

import (
	"embed"
	"encoding/binary"
	"encoding/hex"
	"fmt"
	"strings"
	"testing"

	of "github.com/contiv/libOpenflow/openflow13"
	"verifharness/ev"
)

// Directed regression cases: one plain, generator-free case per confirmed root
// cause (fixed or listed as a known finding). They run at the start of every
// check so that (a) a repaired defect that returns is reported without relying
// on the random search and (b) every listed finding is exercised on every run.

//go:embed testdata/regress/*.txt
var regressFS embed.FS

// regressInputs reads testdata/regress/<id>.txt: one "name hex" pair per line
// ("-" = empty input).
func regressInputs(id string) (names []string, inputs [][]byte) {
	data, err := regressFS.ReadFile("testdata/regress/" + id + ".txt")
	if err != nil {
		return
	}
	for _, line := range strings.Split(string(data), "\n") {
		f := strings.Fields(line)
		if len(f) != 2 || strings.HasPrefix(line, "#") {
			continue
		}
		var b []byte
		if f[1] != "-" {
			if b, err = hex.DecodeString(f[1]); err != nil {
				continue
			}
		}
		names, inputs = append(names, f[0]), append(inputs, b)
	}
	return
}

// regressC07: every input that once made Parse panic, hang or return (nil, nil)
// (the shrunk cases of the repaired defects), plus constructed 64 KiB frames.
func regressC07(t *testing.T, c *ev.Collector) {
	names, inputs := regressInputs("C07")
	for i, in := range inputs {
		c.Eval()
		parseTotal(c, nil, in, "regress:"+names[i], nil, true)
	}
	// multipart replies that fill the frame (the uint16 offset used to wrap): table, aggregate, queue records
	for _, ty := range []uint16{2, 3, 5, 4, 0, 1, 0xffff, 13} {
		for _, size := range []int{65535, 65528, 65520, 65512} {
			b := make([]byte, size)
			b[0], b[1] = 4, 19
			binary.BigEndian.PutUint16(b[2:], uint16(size))
			binary.BigEndian.PutUint16(b[8:], ty)
			for j := 16; j < size; j++ {
				b[j] = byte(j * 7)
			}
			c.Eval()
			parseTotal(c, nil, b, "regress:mp_reply_64k", nil, true)
		}
	}
	c.LabelN("regress_inputs", int64(len(inputs)+32))
	c.FailIfViolations(t)
}

// regressC08: inputs that once crashed or wedged a packet decoder ("decoder hex" pairs).
func regressC08(t *testing.T, c *ev.Collector) {
	names, inputs := regressInputs("C08")
	for i, in := range inputs {
		for _, tg := range pktTargets {
			if tg.name == names[i] {
				c.Eval()
				decodeTotal(c, nil, tg, in, []string{"regress"}, true)
			}
		}
	}
	c.LabelN("regress_inputs", int64(len(inputs)))
	c.FailIfViolations(t)
}

// ---------------------------------------------------------------------------
// Directed regressions of the repaired encode / round-trip defects: one small,
// generator-free case per root cause, run in shard 0 at the start of the
// property's check. A case returns "" when the repaired behaviour holds.

type directed struct {
	name string
	run  func() string
}

func be16at(b []byte, o int) int { return int(binary.BigEndian.Uint16(b[o:])) }

func runDirected(t *testing.T, c *ev.Collector, prop string, cases []directed) {
	if !shard0() {
		return
	}
	for _, d := range cases {
		c.Eval()
		var res string
		if fr, msg := safeCall(func() { res = d.run() }); fr != "" {
			res = "panic in " + fr + ": " + msg
		}
		if res != "" {
			c.Report(nil, prop+"|regress|"+d.name, res, d.name)
		}
	}
	c.LabelN("directed_regressions", int64(len(cases)))
	c.FailIfViolations(t)
}

func flowModWithInstr(cmd uint8) *of.FlowMod {
	f := of.NewFlowMod()
	f.Command = cmd
	f.OutPort, f.OutGroup = 1, 2
	i := of.NewInstrApplyActions()
	i.AddAction(of.NewActionOutput(7), false)
	f.AddInstruction(i)
	return f
}

func regressC01(t *testing.T, c *ev.Collector) {
	runDirected(t, c, "C01", []directed{
		{"flow-mod-delete-with-instructions", func() string {
			for _, cmd := range []uint8{of.FC_DELETE, of.FC_DELETE_STRICT} {
				b, _ := flowModWithInstr(cmd).MarshalBinary()
				if be16at(b, 2) != len(b) {
					return fmt.Sprintf("command %d: header length %d, %d bytes", cmd, be16at(b, 2), len(b))
				}
			}
			return ""
		}},
		{"group-mod-delete-with-buckets", func() string {
			g := of.NewGroupMod()
			g.Command = of.OFPGC_DELETE
			bk := of.NewBucket()
			bk.AddAction(of.NewActionOutput(1))
			g.AddBucket(*bk)
			b, _ := g.MarshalBinary()
			if be16at(b, 2) != len(b) || int(g.Len()) != len(b) {
				return fmt.Sprintf("header length %d, Len %d, %d bytes", be16at(b, 2), g.Len(), len(b))
			}
			return ""
		}},
		{"port-mod-header", func() string {
			b, _ := of.NewPortMod(3).MarshalBinary()
			if b[0] != 4 || b[1] != 16 || be16at(b, 2) != len(b) {
				return fmt.Sprintf("header %x", b[:8])
			}
			return ""
		}},
	})
}

func regressC02(t *testing.T, c *ev.Collector) {
	runDirected(t, c, "C02", []directed{
		{"resubmit-action-type", func() string {
			b, _ := of.NewNXActionResubmit(5).MarshalBinary()
			if be16at(b, 0) != 0xffff {
				return fmt.Sprintf("action type %#x", be16at(b, 0))
			}
			return ""
		}},
		{"dec-ttl-cnt-ids-aligned", func() string {
			for n := 0; n < 9; n++ {
				ids := make([]uint16, n)
				b, _ := of.NewNXActionDecTTLCntIDs(uint16(n), ids...).MarshalBinary()
				if len(b)%8 != 0 || be16at(b, 2) != len(b) {
					return fmt.Sprintf("%d ids: %d bytes, length field %d", n, len(b), be16at(b, 2))
				}
			}
			return ""
		}},
		{"bundle-add-padding", func() string {
			sc := of.NewSetConfig() // 12 bytes: needs 4 pad bytes before the properties
			p := of.NewBundlePropertyExperimenter()
			p.Length = 12
			m := of.NewBundleAdd(&of.BundleAdd{BundleID: 1, Message: sc, Properties: []of.BundlePropertyExperimenter{*p, *p}})
			b, _ := m.MarshalBinary()
			// 16 vendor header + 8 + 12 message + 4 pad + 2 x (12 + 4 pad)
			if len(b) != 16+8+12+4+32 || be16at(b, 2) != len(b) || be16at(b, 40) != 0xffff || be16at(b, 56) != 0xffff {
				return fmt.Sprintf("%d bytes: %x", len(b), b)
			}
			return ""
		}},
	})
}

func regressC03(t *testing.T, c *ev.Collector) {
	runDirected(t, c, "C03", []directed{
		{"flow-mod-out-group-slot", func() string {
			b, _ := flowModWithInstr(of.FC_ADD).MarshalBinary()
			if binary.BigEndian.Uint32(b[36:]) != 1 || binary.BigEndian.Uint32(b[40:]) != 2 {
				return fmt.Sprintf("out_port slot %x out_group slot %x", b[36:40], b[40:44])
			}
			return ""
		}},
		{"nat-proto-max-only", func() string {
			a := of.NewNXActionCTNAT()
			mx := uint16(0x1234)
			a.SetRangeProtoMax(&mx)
			b, _ := a.MarshalBinary()
			// 16-byte fixed part, range_present at 14..15 = 32 (proto max), then the port
			if len(b) != 24 || be16at(b, 14) != 32 || be16at(b, 16) != 0x1234 {
				return fmt.Sprintf("%x", b)
			}
			return ""
		}},
	})
}

func regressC04(t *testing.T, c *ev.Collector) {
	runDirected(t, c, "C04", []directed{
		{"port-status-port-description", func() string {
			b := make([]byte, 80)
			b[0], b[1], b[3] = 4, 12, 80
			b[8] = 2                                   // reason
			binary.BigEndian.PutUint32(b[16:], 0x0a0b) // port_no
			copy(b[24:], []byte{1, 2, 3, 4, 5, 6})
			copy(b[32:], "eth7")
			m, err := of.Parse(b)
			ps, ok := m.(*of.PortStatus)
			if err != nil || !ok {
				return fmt.Sprintf("%T %v", m, err)
			}
			if ps.Reason != 2 || ps.Desc.PortNo != 0x0a0b || ps.Desc.HWAddr.String() != "01:02:03:04:05:06" || string(ps.Desc.Name[:4]) != "eth7" {
				return fmt.Sprintf("reason %d port %#x hw %v name %q", ps.Reason, ps.Desc.PortNo, ps.Desc.HWAddr, ps.Desc.Name)
			}
			return ""
		}},
	})
}

func regressC05(t *testing.T, c *ev.Collector) {
	runDirected(t, c, "C05", []directed{
		{"set-queue-followed-by-another-action", func() string {
			a, _ := of.NewActionSetQueue(9).MarshalBinary()
			o, _ := of.NewActionOutput(1).MarshalBinary()
			d, err := of.DecodeAction(append(a, o...))
			if err != nil {
				return err.Error()
			}
			if q, ok := d.(*of.ActionSetqueue); !ok || q.QueueId != 9 {
				return fmt.Sprintf("%T %+v", d, d)
			}
			return ""
		}},
		{"packet-in-cookie-slot", func() string {
			p := of.NewPacketIn()
			p.BufferId, p.TotalLen, p.Reason, p.TableId, p.Cookie = 0x01020304, 0x0506, 7, 8, 0x1112131415161718
			b, _ := p.MarshalBinary()
			if binary.BigEndian.Uint32(b[8:]) != 0x01020304 || be16at(b, 12) != 0x0506 || b[14] != 7 || b[15] != 8 || binary.BigEndian.Uint64(b[16:]) != 0x1112131415161718 {
				return fmt.Sprintf("%x", b[8:24])
			}
			return ""
		}},
		{"features-reply-datapath-id", func() string {
			f := of.NewFeaturesReply()
			copy(f.DPID, []byte{1, 2, 3, 4, 5, 6, 7, 8})
			f.Buffers = 0x0a0b0c0d
			b, _ := f.MarshalBinary()
			if len(b) != 32 || string(b[8:16]) != "\x01\x02\x03\x04\x05\x06\x07\x08" || binary.BigEndian.Uint32(b[16:]) != 0x0a0b0c0d {
				return fmt.Sprintf("%x", b)
			}
			return ""
		}},
		{"arp-sha-field-decodes", func() string {
			f := of.NewArpShaField([]byte{1, 2, 3, 4, 5, 6})
			b, _ := f.MarshalBinary()
			d := new(of.MatchField)
			if err := d.UnmarshalBinary(b); err != nil {
				return err.Error()
			}
			b2, _ := d.MarshalBinary()
			if string(b2) != string(b) {
				return fmt.Sprintf("%x -> %x", b, b2)
			}
			return ""
		}},
		{"experimenter-oxm-reencodes", func() string {
			w := []byte{0xff, 0xff, 42 << 1, 6, 0x4f, 0x4e, 0x46, 0x00, 0x01, 0x02}
			d := new(of.MatchField)
			if err := d.UnmarshalBinary(w); err != nil {
				return err.Error()
			}
			b2, _ := d.MarshalBinary()
			if string(b2) != string(w) {
				return fmt.Sprintf("%x -> %x", w, b2)
			}
			return ""
		}},
		{"packet-out-decodes", func() string {
			p := of.NewPacketOut()
			p.AddAction(of.NewActionOutput(2))
			p.SetData([]byte{9, 8, 7})
			b, _ := p.MarshalBinary()
			d := of.NewPacketOut()
			if err := d.UnmarshalBinary(b); err != nil {
				return err.Error()
			}
			b2, _ := d.MarshalBinary()
			if string(b2) != string(b) || len(d.Actions) != 1 {
				return fmt.Sprintf("%x -> %x", b, b2)
			}
			return ""
		}},
	})
}
