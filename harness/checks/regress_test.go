package checks

import (
	"testing"

	"verifharness/ev"
)

// Directed regression cases: one plain, generator-free case per confirmed root
// cause (fixed or listed as a known finding). They run at the start of every
// check so that (a) a repaired defect that returns is reported without relying
// on the random search and (b) every listed finding is exercised on every run.

func regressC01(t *testing.T, c *ev.Collector) {}
func regressC02(t *testing.T, c *ev.Collector) {}
func regressC03(t *testing.T, c *ev.Collector) {}
func regressC04(t *testing.T, c *ev.Collector) {}
