package checks

import (
	"embed"
	"encoding/binary"
	"encoding/hex"
	"strings"
	"testing"

	"verifharness/ev"
)

// Directed regression cases: one plain, generator-free case per confirmed root
// cause (fixed or listed as a known finding). They run at the start of every
// check so that (a) a repaired defect that returns is reported without relying
// on the random search and (b) every listed finding is exercised on every run.

func regressC01(t *testing.T, c *ev.Collector) {}
func regressC02(t *testing.T, c *ev.Collector) {}
func regressC03(t *testing.T, c *ev.Collector) {}
func regressC04(t *testing.T, c *ev.Collector) {}

//go:embed testdata/regress/*.txt
var regressFS embed.FS

// regressInputs reads testdata/regress/<id>.txt: one "name hex" pair per line
// ("-" = empty input).
func regressInputs(id string) (names []string, inputs [][]byte) {
	data, err := regressFS.ReadFile("testdata/regress/" + id + ".txt")
	if err != nil {
		return
	}
	for _, line := range strings.Split(string(data), "\n") {
		f := strings.Fields(line)
		if len(f) != 2 || strings.HasPrefix(line, "#") {
			continue
		}
		var b []byte
		if f[1] != "-" {
			if b, err = hex.DecodeString(f[1]); err != nil {
				continue
			}
		}
		names, inputs = append(names, f[0]), append(inputs, b)
	}
	return
}

// regressC07: every input that once made Parse panic, hang or return (nil, nil)
// (the shrunk cases of the repaired defects), plus constructed 64 KiB frames.
func regressC07(t *testing.T, c *ev.Collector) {
	names, inputs := regressInputs("C07")
	for i, in := range inputs {
		c.Eval()
		parseTotal(c, nil, in, "regress:"+names[i], nil, true)
	}
	// multipart replies that fill the frame (the uint16 offset used to wrap): table, aggregate, queue records
	for _, ty := range []uint16{2, 3, 5, 4, 0, 1, 0xffff, 13} {
		for _, size := range []int{65535, 65528, 65520, 65512} {
			b := make([]byte, size)
			b[0], b[1] = 4, 19
			binary.BigEndian.PutUint16(b[2:], uint16(size))
			binary.BigEndian.PutUint16(b[8:], ty)
			for j := 16; j < size; j++ {
				b[j] = byte(j * 7)
			}
			c.Eval()
			parseTotal(c, nil, b, "regress:mp_reply_64k", nil, true)
		}
	}
	c.LabelN("regress_inputs", int64(len(inputs)+32))
	c.FailIfViolations(t)
}

// regressC08: inputs that once crashed or wedged a packet decoder ("decoder hex" pairs).
func regressC08(t *testing.T, c *ev.Collector) {
	names, inputs := regressInputs("C08")
	for i, in := range inputs {
		for _, tg := range pktTargets {
			if tg.name == names[i] {
				c.Eval()
				decodeTotal(c, nil, tg, in, []string{"regress"}, true)
			}
		}
	}
	c.LabelN("regress_inputs", int64(len(inputs)))
	c.FailIfViolations(t)
}
func regressC05(t *testing.T, c *ev.Collector) {}
