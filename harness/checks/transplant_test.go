package checks

import (
	"strings"

	of "github.com/contiv/libOpenflow/openflow13"
	"pgregory.net/rapid"
	"verifharness/gen"
	"verifharness/spec"
)

// Messages built from DECODED parts. A controller does not only build messages
// from constructor-made values: it re-installs a flow from a flow-stats reply,
// copies a reported match into a new rule, moves the actions of a reported
// instruction into a group bucket or a packet-out. Decoded values differ from
// constructor-made ones in what the wire does not carry (internal padding
// slices that are nil, length fields as read, other dynamic types), and an
// encoder or adder that leans on such a detail is right for every
// constructor-made value and wrong for these.
//
// A conformant flow-stats reply from the model is parsed; the match fields,
// instructions or actions of one of its records are handed, through the adder
// methods, to a freshly constructed flow-mod, group-mod or packet-out. The
// expected tree is the fresh message's own fields plus the model nodes of the
// transplanted parts. The result is judged like any other built message (it
// is one of the kinds buildMessage returns, for C01, C02, C03, C06, C12, C13,
// C14).
func transplantMessage(rt *rapid.T) (builtMsg, bool) {
	g := gen.New(rt, 700)
	avoidOneWay(g)
	sm := g.SwitchMessageOf("mp_reply_flow")
	// what only a switch puts on the wire (ONF experimenter-class fields, the NXM fields and instructions
	// without a constructor) is exactly what reaches a built message only this way
	g.Avoid["wire_only_actions"] = true // those are mis-decoded on the pinned tree (known finding of C04)
	injectONFFields(rt, g, sm.Tree)
	wire, big := encodeModel(sm.Tree)
	if big {
		return builtMsg{}, false
	}
	var recs []*of.FlowStats
	if fr, _ := safeCall(func() {
		m, err := of.Parse(wire)
		if mp, ok := m.(*of.MultipartReply); ok && err == nil {
			for _, b := range mp.Body {
				if fs, ok := b.(*of.FlowStats); ok {
					recs = append(recs, fs)
				}
			}
		}
	}); fr != "" {
		return builtMsg{}, false // a conformant frame that does not parse is C04's business
	}
	var nodes []*spec.Node
	for _, k := range sm.Tree.Kids {
		if k.Kind == "mprep.flow" {
			nodes = append(nodes, k)
		}
	}
	if len(recs) == 0 || len(recs) != len(nodes) {
		return builtMsg{}, false
	}
	i := gen.Pick(rt, "transplant_record", len(recs))
	fs, rn := recs[i], nodes[i]
	var matchN *spec.Node
	var instrN []*spec.Node
	for _, k := range rn.Kids {
		if k.Kind == "match" {
			matchN = k
		} else if strings.HasPrefix(k.Kind, "instr.") {
			instrN = append(instrN, k)
		}
	}
	if matchN == nil || len(instrN) != len(fs.Instructions) || len(matchN.Kids) != len(fs.Match.Fields) {
		return builtMsg{}, false
	}
	g2 := gen.New(rt, 60) // the fresh message's own fields; lists come from the decoded record
	labels := map[string]int{"built_from_decoded_parts": 1}
	// the actions of the first actions-instruction, for the bucket / packet-out targets
	var acts []of.Action
	var actN []*spec.Node
	for j, in := range fs.Instructions {
		if ia, ok := in.(*of.InstrActions); ok && len(ia.Actions) > 0 && len(ia.Actions) == len(instrN[j].Kids) {
			acts, actN = ia.Actions, instrN[j].Kids
			break
		}
	}
	target := gen.Pick(rt, "transplant_into", 3)
	if len(acts) == 0 {
		target = 0
	}
	switch target {
	case 0:
		m, tree := g2.FlowMod()
		fm := m.(*of.FlowMod)
		fm.Command = 0
		tree.Set("command", 0)
		fm.Match = *of.NewMatch()
		fm.Instructions = nil
		tree.Kids = nil
		for j := range fs.Match.Fields {
			fm.Match.AddField(fs.Match.Fields[j])
		}
		tree.Add(matchN)
		for j, in := range fs.Instructions {
			fm.AddInstruction(in)
			tree.Add(instrN[j])
		}
		labels["decoded_parts_into=flow_mod"] = 1
		return builtMsg{fm, tree, "flow_mod(from decoded parts)", labels}, true
	case 1:
		m, tree := g2.GroupMod()
		gm := m.(*of.GroupMod)
		gm.Command = 0
		tree.Set("command", 0)
		gm.Buckets = nil
		tree.Kids = nil
		b := of.NewBucket()
		b.Weight, b.WatchPort, b.WatchGroup = 1, 0xffffffff, 0xffffffff
		bn := spec.N("bucket", spec.U("weight", 1), spec.U("watch_port", 0xffffffff), spec.U("watch_group", 0xffffffff))
		for j, a := range acts {
			b.AddAction(a)
			bn.Add(actN[j])
		}
		gm.AddBucket(*b)
		tree.Add(bn)
		labels["decoded_parts_into=group_mod"] = 1
		return builtMsg{gm, tree, "group_mod(from decoded parts)", labels}, true
	default:
		po := of.NewPacketOut()
		po.Header.Xid = 11
		po.BufferId, po.InPort = 0xffffffff, 2
		tree := spec.N("msg.packet_out", spec.U("xid", 11), spec.U("buffer_id", 0xffffffff), spec.U("in_port", 2))
		for j, a := range acts {
			po.AddAction(a)
			tree.Add(actN[j])
		}
		data := []byte{9, 8, 7, 6, 5, 4, 3, 2, 1, 0, 1, 2, 3, 4}
		po.SetData(append([]byte{}, data...))
		tree.With(spec.B("data", data))
		labels["decoded_parts_into=packet_out"] = 1
		return builtMsg{po, tree, "packet_out(from decoded parts)", labels}, true
	}
}
