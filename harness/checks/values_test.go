package checks

import (
	"fmt"

	"github.com/contiv/libOpenflow/common"
	of "github.com/contiv/libOpenflow/openflow13"
	"github.com/contiv/libOpenflow/protocol"
	"github.com/contiv/libOpenflow/util"
	"pgregory.net/rapid"
	"verifharness/gen"
)

// anyValue draws one encodable value of any kind of any package (the rows of
// DESIGN.md Appendix E), built through the API by the dual generators.
type genValue struct {
	v      util.Message
	kind   string
	family string
	labels map[string]int
	// trespass reports a write behind a slice that was handed to the library as the front of a larger
	// buffer of the caller's (gen.G.Carve)
	trespass func() string
}

func anyValue(rt *rapid.T, budget int) genValue {
	g := gen.New(rt, budget)
	g.LateGrowth = true
	gv := genValue{labels: g.Labels, trespass: g.Trespass}
	switch gen.Pick(rt, "value_family", 12) {
	case 0, 1:
		m, _, k := g.Message()
		gv.v, gv.kind, gv.family = m, k, "message"
		if gen.Pick(rt, "from_decoded_parts", 6) == 0 {
			// a message put together from decoded parts (transplant_test.go) is a completed value like any other
			if tb, ok := transplantMessage(rt); ok {
				gv.v, gv.kind = tb.m, tb.kind
				gv.labels = tb.labels
			}
		}
	case 2:
		for {
			sm := g.SwitchMessage()
			if sm.Lib != nil {
				gv.v, gv.kind, gv.family = sm.Lib, "sw."+sm.Kind, "message"
				break
			}
		}
	case 3, 4:
		a, _, n := g.Action()
		gv.v, gv.kind, gv.family = a, "action."+n, "action"
	case 5:
		i, _, n := g.Instr()
		gv.v, gv.kind, gv.family = i, "instr."+n, "instr"
	case 6:
		b, _ := g.Bucket()
		gv.v, gv.kind, gv.family = b, "bucket", "bucket"
	case 7:
		if rapid.Bool().Draw(rt, "match_or_field") {
			m, _ := g.Match(14)
			gv.v, gv.kind, gv.family = m, "match", "match"
		} else {
			f, _, n := g.Field()
			gv.v, gv.kind, gv.family = f, "field."+n, "field"
		}
	case 8, 9:
		p := g.Ethernet(g.Int("maxlen", 64, 1800))
		gv.v, gv.kind, gv.family = p.Eth, "Ethernet/"+p.L3+"/"+p.L4, "packet"
	case 10:
		// stand-alone headers live inside an IP packet: keep them within a jumbo frame (their 16-bit sizes wrap beyond 64 KiB)
		pg := gen.New(rt, 1500)
		p := pg.ProtoValue()
		gv.labels = pg.Labels
		gv.v, gv.kind, gv.family = p.Val, p.Kind, "packet"
	default:
		gv.v, gv.kind, gv.family = smallKind(rt, g)
	}
	return gv
}

// smallKind: kinds that are not reached as top-level values by the other
// families (hello elements, headers, vendor payloads, request bodies, TLV maps,
// bundle properties, util.Buffer, VLAN).
func smallKind(rt *rapid.T, g *gen.G) (util.Message, string, string) {
	switch gen.Pick(rt, "small_kind", 12) {
	case 0:
		h := of.NewOfp13Header()
		h.Type, h.Xid = g.U8("type"), g.U32("xid")
		return &h, "common.Header", "small"
	case 1:
		e := common.NewHelloElemVersionBitmap()
		n := g.Int("nbitmaps", 1, 4)
		e.Bitmaps = e.Bitmaps[:0]
		for i := 0; i < n; i++ {
			e.Bitmaps = append(e.Bitmaps, g.U32("bitmap"))
		}
		e.Length = uint16(4 + 4*n)
		return e, "HelloElemVersionBitmap", "small"
	case 2:
		e := common.NewHelloElemHeader()
		e.Type, e.Length = g.U16("type"), g.U16("length")
		return e, "HelloElemHeader", "small"
	case 3:
		b := util.NewBuffer(g.Bytes("buf", g.Int("buflen", 0, 300)))
		return b, "util.Buffer", "small"
	case 4:
		v, _ := g.VLANTag()
		return v, "VLAN", "packet"
	case 5:
		m := &of.TLVTableMap{OptClass: g.U16("class"), OptType: g.U8("type"), OptLength: g.U8("len"), Index: g.U16("index")}
		return m, "TLVTableMap", "small"
	case 6:
		r := of.NewFlowStatsRequest()
		r.TableId, r.OutPort, r.OutGroup, r.Cookie, r.CookieMask = g.U8("table"), g.U32("out_port"), g.U32("out_group"), g.U64("cookie"), g.U64("cookie_mask")
		m, _ := g.Match(6)
		r.Match = *m
		return r, "FlowStatsRequest", "small"
	case 7:
		r := of.NewAggregateStatsRequest()
		r.TableId, r.OutPort, r.OutGroup, r.Cookie, r.CookieMask = g.U8("table"), g.U32("out_port"), g.U32("out_group"), g.U64("cookie"), g.U64("cookie_mask")
		m, _ := g.Match(6)
		r.Match = *m
		return r, "AggregateStatsRequest", "small"
	case 8:
		r := of.NewPortStatsRequest()
		r.PortNo = g.U16("port")
		return r, "PortStatsRequest", "small"
	case 9:
		r := of.NewQueueStatsRequest()
		r.PortNo, r.QueueId = g.U16("port"), g.U32("queue")
		return r, "QueueStatsRequest", "small"
	case 10:
		p := of.NewPhyPort()
		p.PortNo = g.U32("port_no")
		copy(p.HWAddr, g.MAC("hw"))
		copy(p.Name, g.Bytes("name", 16))
		p.Config, p.State, p.Curr, p.Advertised, p.Supported, p.Peer, p.CurrSpeed, p.MaxSpeed = g.U32("c"), g.U32("s"), g.U32("cu"), g.U32("ad"), g.U32("su"), g.U32("pe"), g.U32("cs"), g.U32("ms")
		return p, "PhyPort", "small"
	default:
		return of.NewSetControllerID(g.U16("id")).VendorData, "ControllerID", "small"
	}
}

var _ = fmt.Sprint
var _ = protocol.NewEthernet

func genNew(rt *rapid.T) *gen.G { return gen.New(rt, 2000) }
