// Package ev is the evidence collector shared by all checks: it counts
// evaluations, keeps the set of distinct non-trivial cases (64-bit hashes),
// label counts, samples, known-finding hits and unlisted violations, and writes
// them as a JSON fragment that the driver (/verif/verif) merges into
// /verif/evidence/<id>.json.
//
// Verdicts never travel through test output (go test hides stdout of passing
// tests): a violation is (a) an entry in the fragment and (b) a failing test.
package ev

import (
	"bufio"
	"encoding/binary"
	"encoding/json"
	"fmt"
	"hash/fnv"
	"os"
	"path/filepath"
	"sort"
	"strings"
	"sync"
)

// Violation is one breach of a property whose signature is not a listed known
// finding.
type Violation struct {
	Sig    string `json:"sig"`
	Detail string `json:"detail"`
	Replay any    `json:"replay,omitempty"` // concrete case (hex input, program, history)
}

type Collector struct {
	mu         sync.Mutex
	Property   string
	evals      int64
	bulk       int64 // cases distinct by construction (enumerated sweeps too large to hash)
	distinct   map[uint64]struct{}
	labels     map[string]int64
	known      map[string]int64
	knownEx    map[string]string // first example per known signature
	excluded   map[string]int64
	samples    []any
	sampleCap  int
	violations []Violation
	exhaustive map[string]bool
	notes      []string
	findings   map[string]string // sig -> text, for this property
	fixed      map[string]bool
	rule       string
	assume     []string
}

var (
	collMu sync.Mutex
	colls  = map[string]*Collector{}
)

// For returns the process-wide collector of a property (one per process is the
// norm: the driver runs one property per subprocess).
func For(property string) *Collector {
	collMu.Lock()
	defer collMu.Unlock()
	if c, ok := colls[property]; ok {
		return c
	}
	c := &Collector{
		Property:   property,
		distinct:   map[uint64]struct{}{},
		labels:     map[string]int64{},
		known:      map[string]int64{},
		knownEx:    map[string]string{},
		excluded:   map[string]int64{},
		exhaustive: map[string]bool{},
		sampleCap:  12,
		findings:   map[string]string{},
		fixed:      map[string]bool{},
	}
	c.loadFindings()
	colls[property] = c
	return c
}

func kfPath() string {
	if p := os.Getenv("VERIF_KF"); p != "" {
		return p
	}
	return "/verif/KNOWN_FINDINGS.txt"
}

// loadFindings reads the committed known-findings file. Format (Appendix C of
// DESIGN.md):
//
//	finding: property=C07 sig=<signature> <what fails>
//	fixed: property=C03 <commit> <what failed>
//
// The file is never written by a check.
func (c *Collector) loadFindings() {
	f, err := os.Open(kfPath())
	if err != nil {
		return
	}
	defer f.Close()
	sc := bufio.NewScanner(f)
	sc.Buffer(make([]byte, 1<<20), 1<<20)
	for sc.Scan() {
		line := strings.TrimSpace(sc.Text())
		if !strings.HasPrefix(line, "finding:") {
			continue
		}
		rest := strings.TrimSpace(strings.TrimPrefix(line, "finding:"))
		parts := strings.Fields(rest)
		if len(parts) < 3 || !strings.HasPrefix(parts[0], "property=") || !strings.HasPrefix(parts[1], "sig=") {
			continue
		}
		if strings.TrimPrefix(parts[0], "property=") != c.Property {
			continue
		}
		sig := strings.TrimPrefix(parts[1], "sig=")
		c.findings[sig] = strings.Join(parts[2:], " ")
	}
}

// Eval counts one property execution that reached the oracle.
func (c *Collector) Eval() {
	c.mu.Lock()
	c.evals++
	c.mu.Unlock()
}

// Bulk counts n evaluations of an enumerated sweep whose cases are pairwise
// distinct by construction and non-trivial by the property's rule; they are
// added to distinct_nontrivial without being hashed.
func (c *Collector) Bulk(n int64) {
	c.mu.Lock()
	c.evals += n
	c.bulk += n
	c.mu.Unlock()
}

func (c *Collector) EvalN(n int64) {
	c.mu.Lock()
	c.evals += n
	c.mu.Unlock()
}

// Hash64 is the hash used for distinctness.
func Hash64(parts ...[]byte) uint64 {
	h := fnv.New64a()
	var l [4]byte
	for _, p := range parts {
		binary.BigEndian.PutUint32(l[:], uint32(len(p)))
		h.Write(l[:])
		h.Write(p)
	}
	return h.Sum64()
}

func HashStr(s ...string) uint64 {
	h := fnv.New64a()
	for _, x := range s {
		h.Write([]byte(x))
		h.Write([]byte{0})
	}
	return h.Sum64()
}

// NonTrivial records a case that is non-trivial by the property's stated rule;
// distinctness is decided by the 64-bit hash.
func (c *Collector) NonTrivial(h uint64) {
	c.mu.Lock()
	c.distinct[h] = struct{}{}
	c.mu.Unlock()
}

func (c *Collector) Label(l string) {
	c.mu.Lock()
	c.labels[l]++
	c.mu.Unlock()
}

func (c *Collector) LabelN(l string, n int64) {
	c.mu.Lock()
	c.labels[l] += n
	c.mu.Unlock()
}

func (c *Collector) Excluded(why string) {
	c.mu.Lock()
	c.excluded[why]++
	c.mu.Unlock()
}

// Sample keeps up to sampleCap cases, spread over the run (reservoir by count).
func (c *Collector) Sample(s any) {
	c.mu.Lock()
	defer c.mu.Unlock()
	if len(c.samples) < c.sampleCap {
		c.samples = append(c.samples, s)
		return
	}
	// deterministic thinning: replace slot (evals mod cap) every 2^k-th call
	n := c.evals
	if n&(n-1) == 0 { // power of two
		c.samples[int(n%int64(c.sampleCap))] = s
	}
}

func (c *Collector) WantSample() bool {
	c.mu.Lock()
	defer c.mu.Unlock()
	n := c.evals
	return len(c.samples) < c.sampleCap || n&(n-1) == 0
}

func (c *Collector) Exhaustive(part string) {
	c.mu.Lock()
	c.exhaustive[part] = true
	c.mu.Unlock()
}

// Rule states, for the evidence file, how cases are generated and what makes
// one non-trivial / distinct.
func (c *Collector) Rule(s string) {
	c.mu.Lock()
	c.rule = s
	c.mu.Unlock()
}

// Assume records an assumption / trusted component of the check.
func (c *Collector) Assume(s ...string) {
	c.mu.Lock()
	for _, x := range s {
		dup := false
		for _, y := range c.assume {
			if x == y {
				dup = true
			}
		}
		if !dup {
			c.assume = append(c.assume, x)
		}
	}
	c.mu.Unlock()
}

func (c *Collector) Note(s string) {
	c.mu.Lock()
	c.notes = append(c.notes, s)
	c.mu.Unlock()
}

// IsKnown reports whether sig is a listed known finding of this property.
func (c *Collector) IsKnown(sig string) bool {
	c.mu.Lock()
	defer c.mu.Unlock()
	_, ok := c.findings[sig]
	return ok
}

// Fataler is the part of testing.T / rapid.T that Report needs.
type Fataler interface {
	Fatalf(format string, args ...any)
}

// Report is called by an oracle on a breach. If sig is a listed known finding
// the hit is counted and Report returns true (the caller carries on, so that the
// search continues behind the finding). Otherwise the violation is recorded in
// the fragment and the test is failed through t (rapid then shrinks; the last
// recorded entry with this signature is the shrunk one).
func (c *Collector) Report(t Fataler, sig, detail string, replay any) bool {
	c.mu.Lock()
	if _, ok := c.findings[sig]; ok {
		c.known[sig]++
		if _, have := c.knownEx[sig]; !have {
			c.knownEx[sig] = detail
		}
		c.mu.Unlock()
		return true
	}
	// keep one entry per signature, the latest (= most shrunk)
	replaced := false
	for i := range c.violations {
		if c.violations[i].Sig == sig {
			c.violations[i] = Violation{sig, detail, replay}
			replaced = true
			break
		}
	}
	if !replaced {
		c.violations = append(c.violations, Violation{sig, detail, replay})
	}
	c.mu.Unlock()
	if os.Getenv("VERIF_EXPLORE") != "" {
		// development aid: collect every distinct unlisted signature in one run
		// instead of stopping at the first (the run still ends as a violation)
		return true
	}
	c.Flush()
	if t != nil {
		t.Fatalf("VIOLATION sig=%s :: %s", sig, detail)
	}
	return false
}

type fragment struct {
	Property    string            `json:"property"`
	Evaluations int64             `json:"evaluations"`
	Distinct    int               `json:"distinct"`
	Bulk        int64             `json:"bulk_distinct"`
	HashFile    string            `json:"hash_file,omitempty"`
	Labels      map[string]int64  `json:"labels"`
	Known       map[string]int64  `json:"known"`
	KnownText   map[string]string `json:"known_text"`
	KnownEx     map[string]string `json:"known_example"`
	Excluded    map[string]int64  `json:"excluded"`
	Samples     []any             `json:"samples"`
	Violations  []Violation       `json:"violations"`
	Exhaustive  []string          `json:"exhaustive"`
	Notes       []string          `json:"notes"`
	Rule        string            `json:"rule"`
	Assumptions []string          `json:"assumptions"`
}

// Flush writes the fragment to $VERIF_FRAG (no-op when unset). It is called at
// the end of every test (via Done), on every unlisted violation, and by the
// watchdog before it terminates the process.
func (c *Collector) Flush() {
	path := os.Getenv("VERIF_FRAG")
	if path == "" {
		return
	}
	c.mu.Lock()
	defer c.mu.Unlock()
	fr := fragment{
		Property:    c.Property,
		Evaluations: c.evals,
		Distinct:    len(c.distinct),
		Bulk:        c.bulk,
		Labels:      c.labels,
		Known:       c.known,
		KnownText:   map[string]string{},
		KnownEx:     c.knownEx,
		Excluded:    c.excluded,
		Samples:     c.samples,
		Violations:  c.violations,
		Notes:       c.notes,
		Rule:        c.rule,
		Assumptions: c.assume,
	}
	for sig := range c.known {
		fr.KnownText[sig] = c.findings[sig]
	}
	for p := range c.exhaustive {
		fr.Exhaustive = append(fr.Exhaustive, p)
	}
	sort.Strings(fr.Exhaustive)
	// hashes to a side file so that the driver can union shards exactly
	hf := strings.TrimSuffix(path, filepath.Ext(path)) + ".hashes"
	if f, err := os.Create(hf); err == nil {
		w := bufio.NewWriter(f)
		var b [8]byte
		for h := range c.distinct {
			binary.LittleEndian.PutUint64(b[:], h)
			w.Write(b[:])
		}
		w.Flush()
		f.Close()
		fr.HashFile = hf
	}
	data, err := json.MarshalIndent(fr, "", " ")
	if err != nil {
		data = []byte(fmt.Sprintf(`{"property":%q,"error":%q}`, c.Property, err.Error()))
	}
	tmp := path + ".tmp"
	if err := os.WriteFile(tmp, data, 0o644); err == nil {
		os.Rename(tmp, path)
	}
}

// NViolations returns the number of unlisted violations recorded so far.
func (c *Collector) NViolations() int {
	c.mu.Lock()
	defer c.mu.Unlock()
	return len(c.violations)
}

// FailIfViolations fails t when a sweep (which reports with a nil Fataler so
// that it can carry on and list every breach) recorded unlisted violations.
func (c *Collector) FailIfViolations(t Fataler) {
	c.mu.Lock()
	n := len(c.violations)
	var first string
	if n > 0 {
		first = c.violations[0].Sig + " :: " + c.violations[0].Detail
	}
	c.mu.Unlock()
	if n > 0 {
		c.Flush()
		t.Fatalf("%d unlisted violation(s); first: %s", n, first)
	}
}

// Done flushes; use as `defer ev.For("C16").Done()` in each test.
func (c *Collector) Done() { c.Flush() }

// Tier returns "quick" or "thorough" (from $VERIF_TIER).
func Tier() string {
	if os.Getenv("VERIF_TIER") == "thorough" {
		return "thorough"
	}
	return "quick"
}

func Thorough() bool { return Tier() == "thorough" }

// Scale returns q in the quick tier and th in the thorough tier.
func Scale(q, th int) int {
	if Thorough() {
		return th
	}
	return q
}
