package gen

import (
	"fmt"

	of "github.com/contiv/libOpenflow/openflow13"
	"verifharness/spec"
)

// ActionGen is one way of building an action through the API.
type ActionGen struct {
	Name   string
	TwoWay bool
	// Container: may nest further actions (only drawn while depth allows)
	Container bool
	Gen       func(g *G) (of.Action, *spec.Node)
}

var Actions []ActionGen

func init() {
	Actions = []ActionGen{
		{"NewActionOutput", true, false, func(g *G) (of.Action, *spec.Node) {
			p, ml := g.U32("port"), g.U16("max_len")
			a := of.NewActionOutput(p)
			a.MaxLen = ml
			return a, spec.N("act.output", spec.U("port", uint64(p)), spec.U("max_len", uint64(ml)))
		}},
		{"NewActionSetQueue", true, false, func(g *G) (of.Action, *spec.Node) {
			q := g.U32("queue")
			return of.NewActionSetQueue(q), spec.N("act.set_queue", spec.U("queue_id", uint64(q)))
		}},
		{"NewActionGroup", true, false, func(g *G) (of.Action, *spec.Node) {
			q := g.U32("group")
			return of.NewActionGroup(q), spec.N("act.group", spec.U("group_id", uint64(q)))
		}},
		{"NewActionDecNwTtl", true, false, func(g *G) (of.Action, *spec.Node) {
			return of.NewActionDecNwTtl(), spec.N("act.dec_nw_ttl")
		}},
		{"NewActionPushVlan", true, false, func(g *G) (of.Action, *spec.Node) {
			e := g.U16("ethertype")
			return of.NewActionPushVlan(e), spec.N("act.push_vlan", spec.U("ethertype", uint64(e)))
		}},
		{"NewActionPushMpls", true, false, func(g *G) (of.Action, *spec.Node) {
			e := g.U16("ethertype")
			return of.NewActionPushMpls(e), spec.N("act.push_mpls", spec.U("ethertype", uint64(e)))
		}},
		{"NewActionPopVlan", true, false, func(g *G) (of.Action, *spec.Node) {
			return of.NewActionPopVlan(), spec.N("act.pop_vlan")
		}},
		{"NewActionPopMpls", true, false, func(g *G) (of.Action, *spec.Node) {
			e := g.U16("ethertype")
			return of.NewActionPopMpls(e), spec.N("act.pop_mpls", spec.U("ethertype", uint64(e)))
		}},
		{"NewActionSetField", true, false, func(g *G) (of.Action, *spec.Node) {
			f, fn, name := g.Field()
			g.Label("set_field=" + name)
			return of.NewActionSetField(*f), spec.N("act.set_field").Add(fn)
		}},
		{"NewNXActionConjunction", true, false, func(g *G) (of.Action, *spec.Node) {
			c, n, id := g.U8("clause"), g.U8("n"), g.U32("id")
			return of.NewNXActionConjunction(c, n, id), spec.N("nx.conjunction", spec.U("clause", uint64(c)), spec.U("n_clauses", uint64(n)), spec.U("id", uint64(id)))
		}},
		{"NewNXActionRegLoad", true, false, func(g *G) (of.Action, *spec.Node) {
			f, h := g.HeaderField("dst")
			on, onWant := g.ofsNbits()
			v := g.U64("value")
			if g.Bool("from_range") {
				first := g.Int("first", 0, 31)
				last := g.Int("last", first, 31)
				on = of.NewNXRange(first, last).ToOfsBits()
				// the denoted word: ofs<<6 | (n_bits-1)
				return of.NewNXActionRegLoad(on, f, v), spec.N("nx.reg_load", spec.U("ofs_nbits", uint64(first<<6|(last-first))), spec.U("dst", uint64(h)), spec.U("value", v))
			}
			return of.NewNXActionRegLoad(on, f, v), spec.N("nx.reg_load", spec.U("ofs_nbits", uint64(onWant)), spec.U("dst", uint64(h)), spec.U("value", v))
		}},
		{"NewNXActionRegMove", true, false, func(g *G) (of.Action, *spec.Node) {
			s, sh := g.HeaderField("src")
			d, dh := g.HeaderField("dst")
			nb, so, do := g.U16("n_bits"), g.U16("src_ofs"), g.U16("dst_ofs")
			return of.NewNXActionRegMove(nb, so, do, s, d), spec.N("nx.reg_move", spec.U("n_bits", uint64(nb)), spec.U("src_ofs", uint64(so)),
				spec.U("dst_ofs", uint64(do)), spec.U("src", uint64(sh)), spec.U("dst", uint64(dh)))
		}},
		{"NewNXActionResubmit", true, false, func(g *G) (of.Action, *spec.Node) {
			p := g.U16("in_port")
			return of.NewNXActionResubmit(p), spec.N("nx.resubmit", spec.U("in_port", uint64(p)), spec.U("table", 0))
		}},
		{"NewNXActionResubmitTableAction", true, false, func(g *G) (of.Action, *spec.Node) {
			p, t := g.U16("in_port"), g.U8("table")
			return of.NewNXActionResubmitTableAction(p, t), spec.N("nx.resubmit_table", spec.U("in_port", uint64(p)), spec.U("table", uint64(t)))
		}},
		{"NewNXActionResubmitTableCT", true, false, func(g *G) (of.Action, *spec.Node) {
			p, t := g.U16("in_port"), g.U8("table")
			if g.Bool("no_in_port") {
				return of.NewNXActionResubmitTableCTNoInPort(t), spec.N("nx.ct_resubmit", spec.U("in_port", 0xfff8), spec.U("table", uint64(t)))
			}
			return of.NewNXActionResubmitTableCT(p, t), spec.N("nx.ct_resubmit", spec.U("in_port", uint64(p)), spec.U("table", uint64(t)))
		}},
		{"NewOutputFromField", true, false, func(g *G) (of.Action, *spec.Node) {
			f, h := g.HeaderField("src")
			on, onWant := g.ofsNbits()
			if g.Bool("with_max_len") {
				ml := g.U16("max_len")
				return of.NewOutputFromFieldWithMaxLen(f, on, ml), spec.N("nx.output_reg", spec.U("ofs_nbits", uint64(onWant)), spec.U("src", uint64(h)), spec.U("max_len", uint64(ml)))
			}
			return of.NewOutputFromField(f, on), spec.N("nx.output_reg", spec.U("ofs_nbits", uint64(onWant)), spec.U("src", uint64(h)), spec.U("max_len", 0xffff))
		}},
		{"NewNXActionCTClear", true, false, func(g *G) (of.Action, *spec.Node) {
			return of.NewNXActionCTClear(), spec.N("nx.ct_clear")
		}},
		{"NewNXActionDecTTL", true, false, func(g *G) (of.Action, *spec.Node) {
			return of.NewNXActionDecTTL(), spec.N("nx.dec_ttl")
		}},
		{"NewNXActionDecTTLCntIDs", true, false, func(g *G) (of.Action, *spec.Node) {
			n := g.Int("n_ids", 0, 9)
			ids := make([]uint16, n)
			var w []byte
			for i := range ids {
				ids[i] = g.U16(fmt.Sprintf("id%d", i))
				w = append(w, be16b(ids[i])...)
			}
			if w == nil {
				w = []byte{}
			}
			return of.NewNXActionDecTTLCntIDs(uint16(n), ids...), spec.N("nx.dec_ttl_cnt_ids", spec.U("n_controllers", uint64(n)), spec.B("ids", w))
		}},
		{"NewNXActionController", true, false, func(g *G) (of.Action, *spec.Node) {
			id, ml, r := g.U16("id"), g.U16("max_len"), g.U8("reason")
			a := of.NewNXActionController(id)
			a.MaxLen = ml
			a.Reason = r
			return a, spec.N("nx.controller", spec.U("max_len", uint64(ml)), spec.U("controller_id", uint64(id)), spec.U("reason", uint64(r)))
		}},
		{"NewNXActionNote", true, false, func(g *G) (of.Action, *spec.Node) {
			n := g.Int("note_len", 0, 40)
			note := g.Bytes("note", n)
			a := of.NewNXActionNote()
			a.Note = g.Carve(note)
			// the NX wire format has no inner length: the note is right-padded with zeros to
			// the 8-byte boundary of the action (normalisation listed in DESIGN 4.2)
			padded := make([]byte, (10+n+7)/8*8-10)
			if len(padded) < 6 {
				padded = make([]byte, 6)
			}
			copy(padded, note)
			return a, spec.N("nx.note", spec.B("note", padded))
		}},
		{"NewNXActionRegLoad2", true, false, func(g *G) (of.Action, *spec.Node) {
			f, fn, name := g.Field()
			g.Label("reg_load2=" + name)
			return of.NewNXActionRegLoad2(f), spec.N("nx.reg_load2").Add(fn)
		}},
		{"NewNXActionLearn", true, false, genLearn},
		{"NewNXActionCTNAT", true, false, genNAT},
		{"NewNXActionConnTrack", true, true, genCT},
	}
}

func genLearn(g *G) (of.Action, *spec.Node) {
	a := of.NewNXActionLearn()
	a.IdleTimeout, a.HardTimeout, a.Priority, a.Cookie = g.U16("idle"), g.U16("hard"), g.U16("prio"), g.U64("cookie")
	a.Flags, a.TableID, a.FinIdleTimeout, a.FinHardTimeout = g.U16("flags"), g.U8("table"), g.U16("fin_idle"), g.U16("fin_hard")
	n := spec.N("nx.learn", spec.U("idle_timeout", uint64(a.IdleTimeout)), spec.U("hard_timeout", uint64(a.HardTimeout)), spec.U("priority", uint64(a.Priority)),
		spec.U("cookie", a.Cookie), spec.U("flags", uint64(a.Flags)), spec.U("table_id", uint64(a.TableID)),
		spec.U("fin_idle_timeout", uint64(a.FinIdleTimeout)), spec.U("fin_hard_timeout", uint64(a.FinHardTimeout)))
	k := g.ListLen("nspecs", 12)
	used := 32
	// a caller that sizes or logs the action while it is still collecting specs (the spec list is an exported
	// slice the caller appends to): what was computed for the shorter list must not stick
	midway := -1
	if k >= 2 && g.Chance("learn_sized_midway", 1, 4) {
		midway = g.Int("learn_midway_at", 1, k-1)
	}
	for i := 0; i < k; i++ {
		if used > g.Budget-300 {
			break
		}
		if i == midway {
			a.Len()
			a.MarshalBinary()
			g.Label("learn_encoded_before_its_last_specs")
		}
		l := fmt.Sprintf("spec%d_", i)
		nb := g.Int(l+"nbits", 1, 1023)
		if g.Chance(l+"small", 3, 4) {
			nb = g.Int(l+"nbits_small", 1, 128)
		}
		s := &of.NXLearnSpec{}
		var sn *spec.Node
		kind := g.Pick(l+"kind", 5)
		srcImm := kind == 0 || kind == 3
		dstKind := map[int]uint64{0: 0, 1: 0, 2: 1, 3: 1, 4: 2}[kind]
		switch kind {
		case 0:
			s.Header = of.NewLearnHeaderMatchFromValue(uint16(nb))
		case 1:
			s.Header = of.NewLearnHeaderMatchFromField(uint16(nb))
		case 2:
			s.Header = of.NewLearnHeaderLoadFromField(uint16(nb))
		case 3:
			s.Header = of.NewLearnHeaderLoadFromValue(uint16(nb))
		case 4:
			s.Header = of.NewLearnHeaderOutputFromField(uint16(nb))
		}
		srcK := uint64(0)
		if srcImm {
			srcK = 1
		}
		sn = spec.N("learn_spec", spec.U("src_kind", srcK), spec.U("dst_kind", dstKind), spec.U("n_bits", uint64(nb)))
		if srcImm {
			v := g.Bytes(l+"imm", 2*((nb+15)/16))
			// the immediate is an n_bits-wide number, right-justified in whole 16-bit words: bits above n_bits
			// are clear (a value that does not fit its declared width is outside "every field within its width";
			// the switch refuses it, and an encoder may as well clear or reject those bits)
			for i, spare := 0, len(v)*8-nb; spare > 0 && i < len(v); i, spare = i+1, spare-8 {
				if spare >= 8 {
					v[i] = 0
				} else {
					v[i] &= 0xff >> uint(spare)
				}
			}
			s.SrcValue = g.Carve(v)
			sn.With(spec.B("src_value", v))
		} else {
			f, h := g.HeaderField(l + "src")
			ofs := g.U16(l + "src_ofs")
			s.SrcField = &of.NXLearnSpecField{Field: f, Ofs: ofs}
			sn.With(spec.U("src_field", uint64(h)), spec.U("src_ofs", uint64(ofs)))
		}
		if dstKind != 2 {
			f, h := g.HeaderField(l + "dst")
			ofs := g.U16(l + "dst_ofs")
			s.DstField = &of.NXLearnSpecField{Field: f, Ofs: ofs}
			sn.With(spec.U("dst_field", uint64(h)), spec.U("dst_ofs", uint64(ofs)))
		}
		a.LearnSpecs = append(a.LearnSpecs, s)
		n.Add(sn)
		used += 14 + 2*((nb+15)/16)
		g.Label(fmt.Sprintf("learn_spec_kind=%d", kind))
	}
	return a, n
}

func genNAT(g *G) (of.Action, *spec.Node) {
	a := of.NewNXActionCTNAT()
	var flags uint64
	switch g.Pick("dir", 3) {
	case 1:
		a.SetSNAT()
		flags |= 1
	case 2:
		a.SetDNAT()
		flags |= 2
	}
	if g.Bool("persistent") {
		a.SetPersistent()
		flags |= 4
	}
	switch g.Pick("alg", 3) {
	case 1:
		a.SetProtoHash()
		flags |= 8
	case 2:
		a.SetRandom()
		flags |= 16
	}
	n := spec.N("nx.nat", spec.U("flags", flags), spec.U("range_present", 0))
	var rp uint64
	// setters are called in OVS order (callers do; the encoder writes fields by kind, not by call order)
	switch g.Pick("family", 3) {
	case 1:
		if g.Bool("v4min") {
			ip, w := g.IPv4("ipv4_min")
			a.SetRangeIPv4Min(ip)
			rp |= 1
			n.With(spec.B("ipv4_min", w))
		}
		if g.Bool("v4max") {
			ip, w := g.IPv4("ipv4_max")
			a.SetRangeIPv4Max(ip)
			rp |= 2
			n.With(spec.B("ipv4_max", w))
		}
	case 2:
		if g.Bool("v6min") {
			ip, w := g.IPv6("ipv6_min")
			a.SetRangeIPv6Min(ip)
			rp |= 4
			n.With(spec.B("ipv6_min", w))
		}
		if g.Bool("v6max") {
			ip, w := g.IPv6("ipv6_max")
			a.SetRangeIPv6Max(ip)
			rp |= 8
			n.With(spec.B("ipv6_max", w))
		}
	}
	if g.Bool("pmin") {
		v := g.U16("proto_min")
		a.SetRangeProtoMin(&v)
		rp |= 16
		n.With(spec.B("proto_min", be16b(v)))
	}
	if g.Bool("pmax") {
		v := g.U16("proto_max")
		a.SetRangeProtoMax(&v)
		rp |= 32
		n.With(spec.B("proto_max", be16b(v)))
	}
	n.Set("range_present", rp)
	g.Label(fmt.Sprintf("nat_range_present=%#x", rp))
	return a, n
}

func genCT(g *G) (of.Action, *spec.Node) {
	a := of.NewNXActionConnTrack()
	var flags uint64
	if g.Bool("commit") {
		a.Commit()
		flags |= 1
	}
	if g.Bool("force") {
		a.Force()
		flags |= 2
	}
	recirc := uint64(0xff)
	if g.Bool("table") {
		t := g.U8("recirc_table")
		a.Table(t)
		recirc = uint64(t)
	}
	var zsrc, zon uint64
	// builder history: a zone setter may be called after the other kind was used; the last call is what counts
	if g.Chance("zone_reset", 1, 4) {
		if g.Bool("first_range") {
			f, h := g.HeaderField("zone_src_first")
			a.ZoneRange(f, of.NewNXRange(2, 9))
			zsrc, zon = uint64(h), uint64(2<<6|7)
		} else {
			z := g.U16("zone_imm_first")
			a.ZoneImm(z)
			zsrc, zon = 0, uint64(z)
		}
		g.Label("ct_zone_set_twice")
	}
	switch g.Pick("zone", 3) {
	case 1:
		z := g.U16("zone_imm")
		a.ZoneImm(z)
		zsrc, zon = 0, uint64(z) // an immediate zone has no source field
	case 2:
		f, h := g.HeaderField("zone_src")
		first := g.Int("zfirst", 0, 31)
		last := g.Int("zlast", first, 31)
		a.ZoneRange(f, of.NewNXRange(first, last))
		zsrc, zon = uint64(h), uint64(first<<6|(last-first))
	}
	alg := g.U16("alg")
	a.Alg = alg
	n := spec.N("nx.ct", spec.U("flags", flags), spec.U("zone_src", zsrc), spec.U("zone_ofs_nbits", zon), spec.U("recirc_table", recirc), spec.U("alg", uint64(alg)))
	k := g.ListLen("nnested", 6)
	var subs []of.Action
	g.Depth++
	for i := 0; i < k; i++ {
		var sub of.Action
		var sn *spec.Node
		if g.Chance("nested_nat", 1, 2) {
			sub, sn = genNAT(g)
			g.Label("nested=nat")
		} else {
			var name string
			sub, sn, name = g.Action()
			g.Label("nested=" + name)
		}
		sz := len(spec.Encode(sn))
		if sz > g.Budget-64 {
			break
		}
		g.Budget -= sz
		subs = append(subs, sub)
		n.Add(sn)
	}
	g.Depth--
	if len(subs) >= 2 && g.Chance("nested_spread_from_callers_list", 1, 3) {
		// The caller keeps its own list (with room to grow), hands a prefix of it to this action and the
		// same prefix to a second conntrack action, then goes on adding to both actions.
		g.Label("nested_spread_from_callers_list")
		j := g.Int("spread_prefix", 1, len(subs)-1)
		list := make([]of.Action, len(subs), len(subs)+4)
		copy(list, subs)
		other := of.NewNXActionConnTrack()
		a.AddAction(list[:j]...)
		other.AddAction(list[:j]...)
		for _, sub := range subs[j:] {
			a.AddAction(sub)
		}
		other.AddAction(of.NewNXActionDecTTL())
	} else {
		for _, sub := range subs {
			a.AddAction(sub)
		}
	}
	g.Label("nested_ct")
	return a, n
}

// Action draws one action through a random constructor.
func (g *G) Action() (of.Action, *spec.Node, string) {
	for {
		ag := Actions[g.Pick("actionkind", len(Actions))]
		if ag.Container && g.Depth >= 2 {
			continue
		}
		if g.Avoid[ag.Name] {
			continue
		}
		a, n := ag.Gen(g)
		return a, n, ag.Name
	}
}

// ActionList draws a list of actions within the byte budget.
func (g *G) ActionList(l string, many int) ([]of.Action, []*spec.Node) {
	k := g.ListLen(l, many)
	var as []of.Action
	var ns []*spec.Node
	for i := 0; i < k; i++ {
		a, n, name := g.Action()
		sz := len(spec.Encode(n))
		if sz > g.Budget-64 {
			break
		}
		g.Budget -= sz
		as = append(as, a)
		ns = append(ns, n)
		g.Label("action=" + name)
	}
	return as, ns
}

// ofsNbits draws an offset/width word either raw or, as callers do, through the
// range helper (NewNXRange(first, last).ToOfsBits() / NewNXRangeByOfsNBits), with
// windows of up to 64 bits anywhere in a 128-bit field. It returns the word handed
// to the constructor and the word the range denotes: first<<6 | (last-first).
func (g *G) ofsNbits() (lib, want uint16) {
	if g.Bool("ofs_nbits_raw") {
		v := g.U16("ofs_nbits")
		return v, v
	}
	first := g.Int("rng_first", 0, 127)
	w := g.Int("rng_width", 1, 64)
	if g.Chance("rng_width_64", 1, 5) {
		w = 64
	}
	g.Label("ofs_nbits_via_range_helper")
	want = uint16(first<<6 | (w - 1))
	if g.Bool("rng_by_ofs_nbits") {
		return of.NewNXRangeByOfsNBits(first, w).ToOfsBits(), want
	}
	return of.NewNXRange(first, first+w-1).ToOfsBits(), want
}
