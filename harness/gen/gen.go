// Package gen holds the rapid generators. The central idea is dual
// construction (DESIGN.md section 5): a generator draws the kind and the
// arguments once and returns both the library value, built only through
// constructors, adder methods and exported fields in the order real callers
// use, and the spec tree that those arguments denote.
package gen

import (
	"fmt"
	"net"

	"pgregory.net/rapid"
)

// G carries the rapid handle and the remaining byte budget of the message
// under construction (sizes are tracked with the model's sizes, never with the
// library's Len()).
type G struct {
	T      *rapid.T
	Budget int
	Depth  int
	Labels map[string]int
	// Avoid lists kinds that the caller wants excluded from this case (used to
	// keep known findings from shadowing everything behind them).
	Avoid map[string]bool
	// LateGrowth lets generators grow a child after it was attached, where the
	// library sizes the container when asked (see PacketOut).
	LateGrowth bool
	// TruncatedPackets: packet headers may declare more bytes than the frame carries (a packet-in holds
	// the first miss_send_len / max_len bytes of the packet, its IP and UDP length fields those of the whole)
	TruncatedPackets bool
	carved           []carved
	// CutPackets: the data of a packet-in may end anywhere inside the packet, also inside a protocol header or
	// before the first byte (OFPCML max_len of a controller action / miss_send_len: "send only the first N
	// bytes", N = 0 included when the switch buffers the packet). Opt-in per check: the value such a frame
	// decodes to is not expressible as the Ethernet value the generator built.
	CutPackets int // 0 never, 1 in a sixth of the packet-ins, 2 in every packet-in
}

// claimMore returns how many bytes more than carried a length field declares (0 most of the time).
func (g *G) claimMore(l string, room int) int {
	if !g.TruncatedPackets || room <= 0 || !g.Chance(l+"_truncated", 1, 3) {
		return 0
	}
	g.Label("packet_truncated_by_switch")
	return g.Int(l+"_missing", 1, room)
}

// Refused is what a generator panics with when a library constructor returns an
// error for an input the specifications allow; the checks report it as a
// violation of the property under test (checkRapid), not as a harness failure.
type Refused struct{ What string }

func New(t *rapid.T, budget int) *G {
	return &G{T: t, Budget: budget, Labels: map[string]int{}, Avoid: map[string]bool{}}
}

func (g *G) Label(l string) { g.Labels[l]++ }

var b8 = []uint8{0, 1, 2, 0x7f, 0x80, 0xfe, 0xff}
var b16 = []uint16{0, 1, 2, 0xff, 0x100, 0x7fff, 0x8000, 0xfffe, 0xffff, 0x1234}
var b32 = []uint32{0, 1, 0xff, 0xffff, 0x10000, 0x7fffffff, 0x80000000, 0xfffffffe, 0xffffffff, 0x12345678, 0xffffff00, 0xfffffffd}
var b64 = []uint64{0, 1, 0xffffffff, 0x100000000, 0x7fffffffffffffff, 0x8000000000000000, 0xfffffffffffffffe, 0xffffffffffffffff, 0x0123456789abcdef}

func (g *G) U8(l string) uint8 {
	return rapid.OneOf(rapid.SampledFrom(b8), rapid.Uint8()).Draw(g.T, l)
}
func (g *G) U16(l string) uint16 {
	return rapid.OneOf(rapid.SampledFrom(b16), rapid.Uint16()).Draw(g.T, l)
}
func (g *G) U32(l string) uint32 {
	return rapid.OneOf(rapid.SampledFrom(b32), rapid.Uint32()).Draw(g.T, l)
}
func (g *G) U64(l string) uint64 {
	return rapid.OneOf(rapid.SampledFrom(b64), rapid.Uint64()).Draw(g.T, l)
}
func (g *G) Bool(l string) bool { return rapid.Bool().Draw(g.T, l) }
func (g *G) Int(l string, lo, hi int) int {
	return rapid.IntRange(lo, hi).Draw(g.T, l)
}

// Pick returns a uniformly distributed index in [0, n). rapid's integer
// generators are deliberately biased towards small values (measured: the first
// of 17 message kinds was drawn 3.7x as often as the last), which is right for
// field values but wrong for choosing a kind; Pick assembles the index from
// unbiased boolean draws, which still shrink (towards index 0) and replay.
func Pick(t *rapid.T, l string, n int) int {
	if n <= 1 {
		return 0
	}
	k := 3
	for m := n - 1; m > 0; m >>= 1 {
		k++
	}
	v := 0
	bits := rapid.SliceOfN(rapid.Bool(), k, k).Draw(t, l)
	for _, b := range bits {
		v <<= 1
		if b {
			v |= 1
		}
	}
	return v % n
}

func (g *G) Pick(l string, n int) int { return Pick(g.T, l, n) }

// Chance returns true with probability about num/den.
func (g *G) Chance(l string, num, den int) bool {
	return g.Pick(l, den) < num
}

func (g *G) Bytes(l string, n int) []byte {
	if n <= 0 {
		return []byte{}
	}
	switch g.Pick(l+"_mode", 6) {
	case 0:
		return make([]byte, n)
	case 1:
		b := make([]byte, n)
		for i := range b {
			b[i] = 0xff
		}
		return b
	case 2:
		// cheap patterned fill for long strings
		s := rapid.Uint8().Draw(g.T, l+"_seed")
		b := make([]byte, n)
		for i := range b {
			b[i] = s + uint8(i*7)
		}
		return b
	}
	if n > 64 {
		head := rapid.SliceOfN(rapid.Byte(), 16, 16).Draw(g.T, l+"_head")
		b := make([]byte, n)
		for i := range b {
			b[i] = head[i%16] ^ uint8(i>>4)
		}
		return b
	}
	return rapid.SliceOfN(rapid.Byte(), n, n).Draw(g.T, l)
}

func (g *G) MAC(l string) net.HardwareAddr { return net.HardwareAddr(g.Bytes(l, 6)) }

// IPv4 returns the address in 4- or 16-byte form (both are valid net.IP values
// for an IPv4 parameter) together with its 4 wire bytes.
func (g *G) IPv4(l string) (net.IP, []byte) {
	w := g.Bytes(l, 4)
	if g.Bool(l + "_form16") {
		return net.IPv4(w[0], w[1], w[2], w[3]), w
	}
	ip := make(net.IP, 4)
	copy(ip, w)
	return ip, w
}

func (g *G) IPv6(l string) (net.IP, []byte) {
	w := g.Bytes(l, 16)
	ip := make(net.IP, 16)
	copy(ip, w)
	return ip, w
}

// ListLen draws a list length: 0, 1, 2, "several", occasionally "many".
func (g *G) ListLen(l string, many int) int {
	// with a byte budget above the default the list is allowed to use it
	// (callers stop adding when the budget is used up)
	if g.Budget > 2048 && g.Pick(l+"_bulk_class", 2) == 0 {
		return rapid.IntRange(many/2, g.Budget/16).Draw(g.T, l+"_bulk")
	}
	switch g.Pick(l+"_class", 10) {
	case 0:
		return 0
	case 1, 2:
		return 1
	case 3, 4:
		return 2
	case 5, 6, 7:
		return rapid.IntRange(3, 6).Draw(g.T, l)
	case 8:
		return rapid.IntRange(7, 20).Draw(g.T, l)
	}
	if many <= 20 {
		return rapid.IntRange(0, many).Draw(g.T, l)
	}
	return rapid.IntRange(21, many).Draw(g.T, l)
}

// Carve returns a copy of b that is the front part of a larger buffer of the
// caller's: the slice has spare capacity, and the bytes behind it belong to the
// caller (another note, the next record of a receive buffer). Nothing the
// library does with the slice may write there; Trespass reports if it did.
func (g *G) Carve(b []byte) []byte {
	buf := make([]byte, len(b)+12)
	copy(buf, b)
	for i := len(b); i < len(buf); i++ {
		buf[i] = 0xA5 ^ byte(i)
	}
	g.carved = append(g.carved, carved{buf, len(b)})
	return buf[:len(b)]
}

type carved struct {
	buf []byte
	n   int
}

// Trespass describes the first carved buffer whose part behind the slice handed to the library was written.
func (g *G) Trespass() string {
	for _, c := range g.carved {
		for i := c.n; i < len(c.buf); i++ {
			if c.buf[i] != 0xA5^byte(i) {
				return fmt.Sprintf("a %d-byte slice handed to the library was the front of a %d-byte buffer of the caller's; byte %d of that buffer (behind the slice) was overwritten: %x", c.n, len(c.buf), i, c.buf[c.n:])
			}
		}
	}
	return ""
}

func cp(b []byte) []byte {
	c := make([]byte, len(b))
	copy(c, b)
	return c
}
