package gen

import (
	"encoding/binary"
	"fmt"
	"net"

	of "github.com/contiv/libOpenflow/openflow13"
	"verifharness/spec"
)

func oxmNode(class uint16, field uint8, value, mask []byte) *spec.Node {
	hm := uint64(0)
	if mask != nil {
		hm = 1
	}
	n := spec.N("oxm", spec.U("class", uint64(class)), spec.U("field", uint64(field)), spec.U("hasmask", hm))
	n.With(spec.B("value", value))
	if mask != nil {
		n.With(spec.B("mask", mask))
	} else {
		n.With(spec.B("mask", nil))
	}
	return n
}

func be16b(v uint16) []byte { b := make([]byte, 2); binary.BigEndian.PutUint16(b, v); return b }
func be32b(v uint32) []byte { b := make([]byte, 4); binary.BigEndian.PutUint32(b, v); return b }
func be64b(v uint64) []byte { b := make([]byte, 8); binary.BigEndian.PutUint64(b, v); return b }

// FieldGen is one way of building a match field through the API.
type FieldGen struct {
	Name string // constructor name
	// TwoWay: DecodeMatchField maps this (class, field) to a payload type, so the
	// kind takes part in the library round trip (C05).
	TwoWay bool
	Gen    func(g *G) (*of.MatchField, *spec.Node)
}

const (
	cOF  = 0x8000
	cNX1 = 0x0001
	cNX0 = 0x0000
)

func u8f(name string, field uint8, twoWay bool, ctor func(uint8) *of.MatchField) FieldGen {
	return FieldGen{name, twoWay, func(g *G) (*of.MatchField, *spec.Node) {
		v := g.U8("v")
		return ctor(v), oxmNode(cOF, field, []byte{v}, nil)
	}}
}
func u16f(name string, field uint8, ctor func(uint16) *of.MatchField) FieldGen {
	return FieldGen{name, true, func(g *G) (*of.MatchField, *spec.Node) {
		v := g.U16("v")
		return ctor(v), oxmNode(cOF, field, be16b(v), nil)
	}}
}

// The address constructors take their value (and mask) by reference. A caller
// builds several fields from one address object - the same host in a /24 rule
// and in an exact-match rule -, so in a third of the cases the same objects are
// first handed to the constructor with another mask and that field is thrown
// away; the wire expectation is taken from copies made before any call.
func macf(name string, class uint16, field uint8, ctor func(net.HardwareAddr, *net.HardwareAddr) *of.MatchField) FieldGen {
	return FieldGen{name, true, func(g *G) (*of.MatchField, *spec.Node) {
		v := g.MAC("v")
		vw := cp(v)
		if g.Chance("address_object_used_before", 1, 3) {
			om := g.MAC("other_mask")
			ctor(v, &om)
			g.Label("address_object_used_for_another_field_first")
		}
		if g.Bool("masked") {
			m := g.MAC("m")
			n := oxmNode(class, field, vw, cp(m))
			return ctor(v, &m), n
		}
		return ctor(v, nil), oxmNode(class, field, vw, nil)
	}}
}
func ip4f(name string, class uint16, field uint8, ctor func(net.IP, *net.IP) *of.MatchField) FieldGen {
	return FieldGen{name, true, func(g *G) (*of.MatchField, *spec.Node) {
		v, vw := g.IPv4("v")
		if g.Chance("address_object_used_before", 1, 3) {
			om, _ := g.IPv4("other_mask")
			ctor(v, &om)
			g.Label("address_object_used_for_another_field_first")
		}
		if g.Bool("masked") {
			m, mw := g.IPv4("m")
			return ctor(v, &m), oxmNode(class, field, vw, mw)
		}
		return ctor(v, nil), oxmNode(class, field, vw, nil)
	}}
}
func ip6f(name string, field uint8, ctor func(net.IP, *net.IP) *of.MatchField) FieldGen {
	return FieldGen{name, true, func(g *G) (*of.MatchField, *spec.Node) {
		v, vw := g.IPv6("v")
		if g.Chance("address_object_used_before", 1, 3) {
			om, _ := g.IPv6("other_mask")
			ctor(v, &om)
			g.Label("address_object_used_for_another_field_first")
		}
		if g.Bool("masked") {
			m, mw := g.IPv6("m")
			return ctor(v, &m), oxmNode(cOF, field, vw, mw)
		}
		return ctor(v, nil), oxmNode(cOF, field, vw, nil)
	}}
}

// Fields is the table of match-field constructors.
var Fields = []FieldGen{
	{"NewInPortField", true, func(g *G) (*of.MatchField, *spec.Node) {
		v := g.U32("v")
		return of.NewInPortField(v), oxmNode(cOF, 0, be32b(v), nil)
	}},
	macf("NewEthDstField", cOF, 3, of.NewEthDstField),
	macf("NewEthSrcField", cOF, 4, of.NewEthSrcField),
	u16f("NewEthTypeField", 5, of.NewEthTypeField),
	{"NewVlanIdField", true, func(g *G) (*of.MatchField, *spec.Node) {
		v := g.U16("v")
		// "match this VLAN id" in OF1.3 is OFPVID_PRESENT | vid (spec 7.2.3.7, table 13)
		if g.Bool("masked") {
			m := g.U16("m")
			return of.NewVlanIdField(v, &m), oxmNode(cOF, 6, be16b(v|0x1000), be16b(m))
		}
		return of.NewVlanIdField(v, nil), oxmNode(cOF, 6, be16b(v|0x1000), nil)
	}},
	{"NewMplsLabelField", true, func(g *G) (*of.MatchField, *spec.Node) {
		v := g.U32("v")
		return of.NewMplsLabelField(v), oxmNode(cOF, 34, be32b(v), nil)
	}},
	u8f("NewMplsBosField", 36, true, of.NewMplsBosField),
	ip4f("NewIpv4SrcField", cOF, 11, of.NewIpv4SrcField),
	ip4f("NewIpv4DstField", cOF, 12, of.NewIpv4DstField),
	ip6f("NewIpv6SrcField", 26, of.NewIpv6SrcField),
	ip6f("NewIpv6DstField", 27, of.NewIpv6DstField),
	{"NewIPV6FlowLabelField", true, func(g *G) (*of.MatchField, *spec.Node) {
		v := g.U32("v")
		if g.Bool("masked") {
			m := g.U32("m")
			return of.NewIPV6FlowLabelField(v, &m), oxmNode(cOF, 28, be32b(v), be32b(m))
		}
		return of.NewIPV6FlowLabelField(v, nil), oxmNode(cOF, 28, be32b(v), nil)
	}},
	u8f("NewIpProtoField", 10, true, of.NewIpProtoField),
	u8f("NewIpDscpField", 8, true, of.NewIpDscpField),
	{"NewTunnelIdField", true, func(g *G) (*of.MatchField, *spec.Node) {
		v := g.U64("v")
		return of.NewTunnelIdField(v), oxmNode(cOF, 38, be64b(v), nil)
	}},
	{"NewMetadataField", true, func(g *G) (*of.MatchField, *spec.Node) {
		v := g.U64("v")
		if g.Bool("masked") {
			m := g.U64("m")
			return of.NewMetadataField(v, &m), oxmNode(cOF, 2, be64b(v), be64b(m))
		}
		return of.NewMetadataField(v, nil), oxmNode(cOF, 2, be64b(v), nil)
	}},
	u16f("NewTcpSrcField", 13, of.NewTcpSrcField),
	u16f("NewTcpDstField", 14, of.NewTcpDstField),
	u16f("NewUdpSrcField", 15, of.NewUdpSrcField),
	u16f("NewUdpDstField", 16, of.NewUdpDstField),
	u16f("NewSctpSrcField", 17, of.NewSctpSrcField),
	u16f("NewSctpDstField", 18, of.NewSctpDstField),
	{"NewTcpFlagsField", true, func(g *G) (*of.MatchField, *spec.Node) {
		v := g.U16("v")
		if g.Bool("masked") {
			m := g.U16("m")
			return of.NewTcpFlagsField(v, &m), oxmNode(cOF, 42, be16b(v), be16b(m))
		}
		return of.NewTcpFlagsField(v, nil), oxmNode(cOF, 42, be16b(v), nil)
	}},
	u16f("NewArpOperField", 21, of.NewArpOperField),
	{"NewArpThaField", true, func(g *G) (*of.MatchField, *spec.Node) {
		v := g.MAC("v")
		return of.NewArpThaField(v), oxmNode(cOF, 25, v, nil)
	}},
	{"NewArpShaField", true, func(g *G) (*of.MatchField, *spec.Node) {
		v := g.MAC("v")
		return of.NewArpShaField(v), oxmNode(cOF, 24, v, nil)
	}},
	{"NewArpTpaField", true, func(g *G) (*of.MatchField, *spec.Node) {
		v, w := g.IPv4("v")
		return of.NewArpTpaField(v), oxmNode(cOF, 23, w, nil)
	}},
	{"NewArpSpaField", true, func(g *G) (*of.MatchField, *spec.Node) {
		v, w := g.IPv4("v")
		return of.NewArpSpaField(v), oxmNode(cOF, 22, w, nil)
	}},
	ip4f("NewTunnelIpv4SrcField", cNX1, 31, of.NewTunnelIpv4SrcField),
	ip4f("NewTunnelIpv4DstField", cNX1, 32, of.NewTunnelIpv4DstField),
	{"NewActsetOutputField", false, func(g *G) (*of.MatchField, *spec.Node) {
		v := g.U32("v")
		return of.NewActsetOutputField(v), oxmNode(cOF, 43, be32b(v), nil)
	}},
	u8f("NewIcmpCodeField", 20, true, of.NewIcmpCodeField),
	u8f("NewIcmpTypeField", 19, true, of.NewIcmpTypeField),
	{"NewRegMatchField", true, func(g *G) (*of.MatchField, *spec.Node) {
		idx := g.Int("reg", 0, 15)
		v := g.U32("v")
		if g.Bool("masked") {
			first := g.Int("first", 0, 31)
			last := g.Int("last", first, 31)
			var m uint32
			for b := first; b <= last; b++ {
				m |= 1 << uint(b)
			}
			var rng *of.NXRange
			if g.Bool("by_ofs") {
				rng = of.NewNXRangeByOfsNBits(first, last-first+1)
			} else {
				rng = of.NewNXRange(first, last)
			}
			return of.NewRegMatchField(idx, v, rng), oxmNode(cNX1, uint8(idx), be32b(v), be32b(m))
		}
		return of.NewRegMatchField(idx, v, nil), oxmNode(cNX1, uint8(idx), be32b(v), nil)
	}},
	{"NewMulitiRegMatch", true, func(g *G) (*of.MatchField, *spec.Node) {
		// 1..3 masked pieces of one register merged into one field. What the merge makes of non-zero piece values
		// is not written down anywhere (the code moves them by the difference of the pieces' offsets), so the
		// pieces carry the value 0: the merged field is the register with value 0 under the union of the masks.
		idx := g.Int("reg", 0, 15)
		k := g.Int("pieces", 1, 3)
		cuts := []int{0, 32}
		if g.Bool("partial_cover") {
			cuts = []int{g.Int("lo", 0, 15), g.Int("hi", 16, 32)}
		}
		var pieces []*of.MatchField
		var union uint32
		lo := cuts[0]
		for i := 0; i < k && lo < cuts[1]; i++ {
			hi := cuts[1]
			if i < k-1 {
				hi = g.Int(fmt.Sprintf("cut%d", i), lo+1, cuts[1])
			}
			for b := lo; b < hi; b++ {
				union |= 1 << uint(b)
			}
			pieces = append(pieces, of.NewRegMatchField(idx, 0, of.NewNXRange(lo, hi-1)))
			lo = hi
		}
		if len(pieces) > 1 && g.Bool("descending") {
			for i, j := 0, len(pieces)-1; i < j; i, j = i+1, j-1 {
				pieces[i], pieces[j] = pieces[j], pieces[i]
			}
		}
		out := of.NewMulitiRegMatch(pieces...)
		if len(out) != 1 {
			panic(Refused{fmt.Sprintf("NewMulitiRegMatch of %d pieces of reg%d returned %d fields", len(pieces), idx, len(out))})
		}
		if union == 0xffffffff {
			g.Label("merged_reg_pieces_cover_all_bits")
		}
		return out[0], oxmNode(cNX1, uint8(idx), be32b(0), be32b(union))
	}},
	{"NewTunMetadataField", true, func(g *G) (*of.MatchField, *spec.Node) {
		idx := g.Int("idx", 0, 7)
		n := 4 * g.Int("words", 1, 31)
		if g.Chance("small", 3, 4) {
			n = 4 * g.Int("words_small", 1, 4)
		}
		v := g.Bytes("v", n)
		if g.Bool("masked") && n <= 60 { // value+mask must fit the 8-bit OXM length
			m := g.Bytes("m", n)
			return of.NewTunMetadataField(idx, cp(v), cp(m)), oxmNode(cNX1, uint8(40+idx), v, m)
		}
		if g.Bool("mask_empty_not_nil") {
			// "no mask" spelled as an empty slice (what hex.DecodeString("") or a split on an absent "/mask" gives)
			g.Label("tun_metadata_empty_mask_slice")
			return of.NewTunMetadataField(idx, cp(v), []byte{}), oxmNode(cNX1, uint8(40+idx), v, nil)
		}
		return of.NewTunMetadataField(idx, cp(v), nil), oxmNode(cNX1, uint8(40+idx), v, nil)
	}},
	{"NewCTStateMatchField", true, func(g *G) (*of.MatchField, *spec.Node) {
		s := of.NewCTStates()
		var val, mask uint32
		for i := 0; i < 8; i++ {
			switch g.Pick(fmt.Sprintf("flag%d", i), 3) {
			case 1:
				ctSet(s, i, true)
				val |= 1 << uint(i)
				mask |= 1 << uint(i)
			case 2:
				ctSet(s, i, false)
				mask |= 1 << uint(i)
			}
		}
		return of.NewCTStateMatchField(s), oxmNode(cNX1, 105, be32b(val), be32b(mask))
	}},
	{"NewCTZoneMatchField", true, func(g *G) (*of.MatchField, *spec.Node) {
		v := g.U16("v")
		return of.NewCTZoneMatchField(v), oxmNode(cNX1, 106, be16b(v), nil)
	}},
	{"NewCTMarkMatchField", true, func(g *G) (*of.MatchField, *spec.Node) {
		v := g.U32("v")
		if g.Bool("masked") {
			m := g.U32("m")
			return of.NewCTMarkMatchField(v, &m), oxmNode(cNX1, 107, be32b(v), be32b(m))
		}
		return of.NewCTMarkMatchField(v, nil), oxmNode(cNX1, 107, be32b(v), nil)
	}},
	{"NewCTLabelMatchField", true, func(g *G) (*of.MatchField, *spec.Node) {
		var v, m [16]byte
		copy(v[:], g.Bytes("v", 16))
		if g.Bool("masked") {
			copy(m[:], g.Bytes("m", 16))
			return of.NewCTLabelMatchField(v, &m), oxmNode(cNX1, 108, v[:], m[:])
		}
		return of.NewCTLabelMatchField(v, nil), oxmNode(cNX1, 108, v[:], nil)
	}},
	{"NewConjIDMatchField", true, func(g *G) (*of.MatchField, *spec.Node) {
		v := g.U32("v")
		return of.NewConjIDMatchField(v), oxmNode(cNX1, 37, be32b(v), nil)
	}},
	{"NewNxARPShaMatchField", true, func(g *G) (*of.MatchField, *spec.Node) {
		v := g.MAC("v")
		if g.Bool("masked") {
			m := g.MAC("m")
			return of.NewNxARPShaMatchField(v, m), oxmNode(cNX1, 17, v, m)
		}
		return of.NewNxARPShaMatchField(v, nil), oxmNode(cNX1, 17, v, nil)
	}},
	{"NewNxARPThaMatchField", true, func(g *G) (*of.MatchField, *spec.Node) {
		v := g.MAC("v")
		if g.Bool("masked") {
			m := g.MAC("m")
			return of.NewNxARPThaMatchField(v, m), oxmNode(cNX1, 18, v, m)
		}
		return of.NewNxARPThaMatchField(v, nil), oxmNode(cNX1, 18, v, nil)
	}},
	{"NewNxARPSpaMatchField", false, func(g *G) (*of.MatchField, *spec.Node) {
		v, w := g.IPv4("v")
		if g.Bool("masked") {
			m, mw := g.IPv4("m")
			return of.NewNxARPSpaMatchField(v, m), oxmNode(cNX0, 16, w, mw)
		}
		return of.NewNxARPSpaMatchField(v, nil), oxmNode(cNX0, 16, w, nil)
	}},
	{"NewNxARPTpaMatchField", false, func(g *G) (*of.MatchField, *spec.Node) {
		v, w := g.IPv4("v")
		if g.Bool("masked") {
			m, mw := g.IPv4("m")
			return of.NewNxARPTpaMatchField(v, m), oxmNode(cNX0, 17, w, mw)
		}
		return of.NewNxARPTpaMatchField(v, nil), oxmNode(cNX0, 17, w, nil)
	}},
	{"NewMatchField(generic)", false, genericField},
}

func ctSet(s *of.CTStates, flag int, set bool) {
	type pair struct{ set, unset func() }
	ps := []pair{{s.SetNew, s.UnsetNew}, {s.SetEst, s.UnsetEst}, {s.SetRel, s.UnsetRel}, {s.SetRpl, s.UnsetRpl},
		{s.SetInv, s.UnsetInv}, {s.SetTrk, s.UnsetTrk}, {s.SetSNAT, s.UnsetSNAT}, {s.SetDNAT, s.UnsetDNAT}}
	if set {
		ps[flag].set()
	} else {
		ps[flag].unset()
	}
}

// genericNames: fields the generic builder is used for in codec checks
// (fixed-width, with the registry width agreeing with the OVS width; the width
// defects of the registry itself are C15's business).
var genericNames = []string{"NXM_NX_REG0", "NXM_NX_REG7", "NXM_NX_REG15", "NXM_NX_XXREG0", "NXM_NX_XXREG3", "NXM_NX_CT_MARK", "NXM_NX_PKT_MARK",
	"NXM_NX_TUN_ID", "OXM_OF_METADATA", "OXM_OF_ETH_SRC", "OXM_OF_IPV6_DST", "NXM_NX_CT_LABEL", "OXM_OF_VLAN_PCP", "NXM_NX_TCP_FLAGS", "NXM_OF_IN_PORT", "OXM_OF_IN_PORT"}

func genericField(g *G) (*of.MatchField, *spec.Node) {
	name := genericNames[g.Pick("name", len(genericNames))]
	cf := spec.OXMByName[name]
	info, _ := spec.LookupOXM(uint16(cf[0]), uint8(cf[1]))
	w := info.Width
	// no window: the value fills the field, right-aligned
	v := g.Bytes("v", w)
	if g.Bool("windowed") {
		// window (offset, width): value drawn inside the window
		ofs := g.Int("ofs", 0, 8*w-1)
		wid := g.Int("wid", 1, 8*w-ofs)
		// value of at most wid bits, as a byte string
		vb := g.Bytes("wv", (wid+7)/8)
		if wid%8 != 0 {
			vb[0] &= byte(1<<uint(wid%8)) - 1
		}
		f, err := of.NewMatchField(name, cp(vb), ofs, wid)
		if err != nil {
			panic(fmt.Sprintf("gen: NewMatchField(%s, %x, %d, %d): %v", name, vb, ofs, wid, err))
		}
		val := shiftLeft(vb, ofs, w)
		mask := shiftLeft(ones(wid), ofs, w)
		return f, oxmNode(uint16(cf[0]), uint8(cf[1]), val, mask)
	}
	f, err := of.NewMatchField[[]byte, int](name, cp(v))
	if err != nil {
		panic(fmt.Sprintf("gen: NewMatchField(%s, %x): %v", name, v, err))
	}
	return f, oxmNode(uint16(cf[0]), uint8(cf[1]), v, nil)
}

func ones(bits int) []byte {
	b := make([]byte, (bits+7)/8)
	for i := range b {
		b[i] = 0xff
	}
	if bits%8 != 0 {
		b[0] = byte(1<<uint(bits%8)) - 1
	}
	return b
}

// shiftLeft returns (big-endian v) << ofs, right-aligned in w bytes.
func shiftLeft(v []byte, ofs, w int) []byte {
	out := make([]byte, w)
	nb := len(v) * 8
	for i := 0; i < nb; i++ { // bit i of v, counted from the least significant
		if v[len(v)-1-i/8]&(1<<uint(i%8)) != 0 {
			p := i + ofs
			if p/8 < w {
				out[w-1-p/8] |= 1 << uint(p%8)
			}
		}
	}
	return out
}

// Field draws one match field through a random constructor.
func (g *G) Field() (*of.MatchField, *spec.Node, string) {
	for {
		fg := Fields[g.Pick("fieldkind", len(Fields))]
		if g.Avoid[fg.Name] {
			continue
		}
		f, n := fg.Gen(g)
		return f, n, fg.Name
	}
}

// Match builds a match with AddField, bottom-up.
func (g *G) Match(maxFields int) (*of.Match, *spec.Node) {
	m := of.NewMatch()
	return m, g.MatchInto(m, maxFields, nil)
}

// MatchInto adds drawn fields to a match the caller already has (the one a
// message constructor made); between, if not nil, runs after every added field
// (whatever else the caller does while this match is under construction).
func (g *G) MatchInto(m *of.Match, maxFields int, between func()) *spec.Node {
	n := spec.N("match")
	k := g.ListLen("nfields", maxFields)
	for i := 0; i < k; i++ {
		f, fn, name := g.Field()
		sz := len(spec.Encode(fn))
		if sz > g.Budget-64 {
			break
		}
		g.Budget -= sz
		m.AddField(*f)
		if between != nil {
			between()
		}
		n.Add(fn)
		g.Label("field=" + name)
		if fn.Get("hasmask") == 1 {
			g.Label("has_mask")
		}
	}
	g.Budget -= 8
	return n
}

// HeaderField returns a field header (no payload) for reg_move / reg_load /
// output_reg / learn specs, looked up by OVS name as callers do, and the
// 32-bit NXM header word that the name denotes by the model's table.
var headerNames = []string{"NXM_NX_REG0", "NXM_NX_REG1", "NXM_NX_REG5", "NXM_NX_REG15", "NXM_OF_ETH_SRC", "NXM_OF_ETH_DST", "NXM_OF_IN_PORT",
	"NXM_NX_TUN_ID", "NXM_NX_CT_MARK", "NXM_NX_CT_LABEL", "NXM_NX_XXREG0", "NXM_NX_PKT_MARK", "NXM_OF_VLAN_TCI", "NXM_OF_IP_SRC", "NXM_OF_IP_DST",
	"NXM_NX_TUN_IPV4_DST", "OXM_OF_METADATA", "NXM_NX_CT_ZONE", "NXM_NX_IPV6_SRC", "OXM_OF_IN_PORT", "NXM_NX_TUN_METADATA0", "NXM_NX_TUN_METADATA7"}

func (g *G) HeaderField(l string) (*of.MatchField, uint32) {
	name := headerNames[g.Pick(l, len(headerNames))]
	f, err := of.FindFieldHeaderByName(name, false)
	if err != nil {
		panic(err)
	}
	cf := spec.OXMByName[name]
	info, _ := spec.LookupOXM(uint16(cf[0]), uint8(cf[1]))
	return f, uint32(cf[0])<<16 | uint32(cf[1])<<9 | uint32(info.Width)
}
