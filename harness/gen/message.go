package gen

import (
	"fmt"

	"github.com/contiv/libOpenflow/common"
	of "github.com/contiv/libOpenflow/openflow13"
	"github.com/contiv/libOpenflow/util"
	"verifharness/spec"
)

// Instr draws one instruction (bottom-up: its actions are complete before they
// are added; prepend is exercised).
func (g *G) Instr() (of.Instruction, *spec.Node, string) {
	switch g.Pick("instrkind", 8) {
	case 6:
		// no constructor: built from the exported fields, the way NewInstr* fill them
		id := g.U32("meter_id")
		in := &of.InstrMeter{MeterId: id}
		in.Type, in.Length = of.InstrType_METER, 8
		return in, spec.N("instr.meter", spec.U("meter_id", uint64(id))), "meter"
	case 7:
		in := new(of.InstrActions)
		in.Type, in.Length = of.InstrType_CLEAR_ACTIONS, 8
		return in, spec.N("instr.clear_actions"), "clear_actions"
	case 0:
		t := g.U8("table")
		return of.NewInstrGotoTable(t), spec.N("instr.goto_table", spec.U("table_id", uint64(t))), "goto_table"
	case 1:
		m, k := g.U64("metadata"), g.U64("mask")
		return of.NewInstrWriteMetadata(m, k), spec.N("instr.write_metadata", spec.U("metadata", m), spec.U("metadata_mask", k)), "write_metadata"
	}
	var in *of.InstrActions
	var n *spec.Node
	name := "apply_actions"
	if g.Bool("write") {
		in, n, name = of.NewInstrWriteActions(), spec.N("instr.write_actions"), "write_actions"
	} else {
		in, n = of.NewInstrApplyActions(), spec.N("instr.apply_actions")
	}
	g.Budget -= 8
	as, ns := g.ActionList("nactions", 40)
	for i := range as {
		if g.Chance("prepend", 1, 4) {
			in.AddAction(as[i], true)
			n.Kids = append([]*spec.Node{ns[i]}, n.Kids...)
			g.Label("prepend")
		} else {
			in.AddAction(as[i], false)
			n.Add(ns[i])
		}
	}
	// Late growth (framing / size checks only, see PacketOut): InstrActions.Len walks its actions when asked, so
	// the message's own size and header length follow an action that grows after it was added, while the
	// instruction's cached length field does not (which is why the wire-grammar checks keep to bottom-up order).
	if g.LateGrowth && g.Budget > 256 && g.Chance("late_growth_instr", 1, 4) {
		ct := of.NewNXActionConnTrack()
		cn := spec.N("nx.ct", spec.U("flags", 0), spec.U("zone_src", 0), spec.U("zone_ofs_nbits", 0), spec.U("recirc_table", 0xff), spec.U("alg", 0))
		in.AddAction(ct, false)
		n.Add(cn)
		g.Budget -= 24
		for i, k := 0, g.Int("late_nested_instr", 1, 3); i < k; i++ {
			sub, sn := genNAT(g)
			g.Budget -= len(spec.Encode(sn))
			ct.AddAction(sub)
			cn.Add(sn)
		}
		g.Label("late_growth_in_instruction")
	}
	return in, n, name
}

func (g *G) Bucket() (*of.Bucket, *spec.Node) {
	b := of.NewBucket()
	b.Weight, b.WatchPort, b.WatchGroup = g.U16("weight"), g.U32("watch_port"), g.U32("watch_group")
	n := spec.N("bucket", spec.U("weight", uint64(b.Weight)), spec.U("watch_port", uint64(b.WatchPort)), spec.U("watch_group", uint64(b.WatchGroup)))
	g.Budget -= 16
	as, ns := g.ActionList("nactions", 30)
	for i := range as {
		b.AddAction(as[i])
		n.Add(ns[i])
	}
	// Late growth: a bucket sizes its actions when it is asked (Bucket.Len walks the
	// list), so - unlike instructions, packet-out and ct, which capture a child's size
	// when it is added - a conntrack action may still receive nested actions after it
	// was put into the bucket. Built that way in a fraction of the cases.
	if g.Budget > 256 && g.Chance("late_growth", 1, 5) {
		ct := of.NewNXActionConnTrack()
		cn := spec.N("nx.ct", spec.U("flags", 0), spec.U("zone_src", 0), spec.U("zone_ofs_nbits", 0), spec.U("recirc_table", 0xff), spec.U("alg", 0))
		b.AddAction(ct)
		n.Add(cn)
		g.Budget -= 24
		for i, k := 0, g.Int("late_nested", 1, 3); i < k; i++ {
			sub, sn := genNAT(g)
			if g.Bool("late_other") {
				sub, sn, _ = g.Action()
			}
			g.Budget -= len(spec.Encode(sn))
			ct.AddAction(sub)
			cn.Add(sn)
		}
		g.Label("late_growth_in_bucket")
		g.Label("nested_ct")
	}
	return b, n
}

func (g *G) xid(h *common.Header) uint64 {
	x := g.U32("xid")
	h.Xid = x
	return uint64(x)
}

// MessageKinds lists the controller-originated kinds (C01's domain).
var MessageKinds = []string{"hello", "echo_request", "echo_reply", "features_request", "get_config_request", "barrier_request", "set_config",
	"flow_mod", "group_mod", "packet_out", "port_mod", "mp_request", "nx_set_controller_id", "nx_tlv_table_mod", "nx_tlv_table_request",
	"bundle_ctrl", "bundle_add"}

// Message draws one controller-originated message.
func (g *G) Message() (util.Message, *spec.Node, string) {
	kind := MessageKinds[g.Pick("msgkind", len(MessageKinds))]
	for g.Avoid[kind] {
		kind = MessageKinds[g.Pick("msgkind_again", len(MessageKinds))]
	}
	m, n := g.MessageOf(kind)
	return m, n, kind
}

func (g *G) MessageOf(kind string) (util.Message, *spec.Node) {
	bare := func(t uint8, k string) (util.Message, *spec.Node) {
		h := of.NewOfp13Header()
		h.Type = t
		x := g.xid(&h)
		return &h, spec.N(k, spec.U("xid", x))
	}
	switch kind {
	case "hello":
		h, err := common.NewHello(4)
		if err != nil {
			panic(err)
		}
		x := g.xid(&h.Header)
		n := spec.N("msg.hello", spec.U("xid", x))
		// default element: one bitmap 0x12
		n.Add(spec.N("hello.versionbitmap", spec.B("bitmaps", []byte{0, 0, 0, 0x12})))
		if g.Chance("more_elements", 1, 4) {
			k := g.Int("extra_elems", 1, 3)
			for i := 0; i < k; i++ {
				e := common.NewHelloElemVersionBitmap()
				nb := g.Int(fmt.Sprintf("nbitmaps%d", i), 1, 3)
				e.Bitmaps = e.Bitmaps[:0]
				var w []byte
				for j := 0; j < nb; j++ {
					v := g.U32(fmt.Sprintf("bitmap%d_%d", i, j))
					e.Bitmaps = append(e.Bitmaps, v)
					w = append(w, be32b(v)...)
				}
				e.Length = uint16(4 + 4*nb) // a caller maintains the element length (Appendix B.2)
				h.Elements = append(h.Elements, e)
				n.Add(spec.N("hello.versionbitmap", spec.B("bitmaps", w)))
				g.Label(fmt.Sprintf("hello_bitmaps=%d", nb))
			}
		}
		return h, n
	case "echo_request":
		h := of.NewEchoRequest()
		x := g.xid(h)
		return h, spec.N("msg.echo_request", spec.U("xid", x), spec.B("data", nil))
	case "echo_reply":
		h := of.NewEchoReply()
		x := g.xid(h)
		return h, spec.N("msg.echo_reply", spec.U("xid", x), spec.B("data", nil))
	case "features_request":
		h := of.NewFeaturesRequest()
		x := g.xid(h)
		return h, spec.N("msg.features_request", spec.U("xid", x))
	case "get_config_request":
		h := of.NewConfigRequest()
		x := g.xid(h)
		return h, spec.N("msg.get_config_request", spec.U("xid", x))
	case "barrier_request":
		return bare(of.Type_BarrierRequest, "msg.barrier_request")
	case "set_config":
		c := of.NewSetConfig()
		x := g.xid(&c.Header)
		c.Flags, c.MissSendLen = g.U16("flags"), g.U16("miss_send_len")
		return c, spec.N("msg.set_config", spec.U("xid", x), spec.U("flags", uint64(c.Flags)), spec.U("miss_send_len", uint64(c.MissSendLen)))
	case "flow_mod":
		return g.FlowMod()
	case "group_mod":
		return g.GroupMod()
	case "packet_out":
		return g.PacketOut()
	case "port_mod":
		p := of.NewPortMod(int(g.U32("port")))
		x := g.xid(&p.Header)
		hw := g.MAC("hw")
		p.HWAddr = cp(hw)
		p.Config, p.Mask, p.Advertise = g.U32("config"), g.U32("mask"), g.U32("advertise")
		return p, spec.N("msg.port_mod", spec.U("xid", x), spec.U("port_no", uint64(p.PortNo)), spec.B("hw_addr", hw),
			spec.U("config", uint64(p.Config)), spec.U("mask", uint64(p.Mask)), spec.U("advertise", uint64(p.Advertise)))
	case "mp_request":
		return g.MultipartRequest()
	case "nx_set_controller_id":
		id := g.U16("id")
		m := of.NewSetControllerID(id)
		x := g.xid(&m.Header)
		return m, spec.N("msg.nx.set_controller_id", spec.U("xid", x), spec.U("controller_id", uint64(id)))
	case "nx_tlv_table_mod":
		cmd := uint16(g.Pick("command", 3))
		k := g.ListLen("nmaps", 40)
		if k > (g.Budget-64)/8 {
			k = (g.Budget - 64) / 8
		}
		var maps []*of.TLVTableMap
		n := spec.N("msg.nx.tlv_table_mod", spec.U("xid", 0), spec.U("command", uint64(cmd)))
		for i := 0; i < k; i++ {
			l := fmt.Sprintf("map%d_", i)
			tm := &of.TLVTableMap{OptClass: g.U16(l + "class"), OptType: g.U8(l + "type"), OptLength: g.U8(l + "len"), Index: g.U16(l + "index")}
			maps = append(maps, tm)
			n.Add(spec.N("tlv_map", spec.U("option_class", uint64(tm.OptClass)), spec.U("option_type", uint64(tm.OptType)), spec.U("option_len", uint64(tm.OptLength)), spec.U("index", uint64(tm.Index))))
		}
		m := of.NewTLVTableModMessage(of.NewTLVTableMod(cmd, maps))
		n.Set("xid", g.xid(&m.Header))
		return m, n
	case "nx_tlv_table_request":
		m := of.NewTLVTableRequest()
		x := g.xid(&m.Header)
		return m, spec.N("msg.nx.tlv_table_request", spec.U("xid", x))
	case "bundle_ctrl":
		bc := &of.BundleControl{BundleID: g.U32("bundle_id"), Type: uint16(g.Pick("type", 8)), Flags: g.U16("flags")}
		m := of.NewBundleControl(bc)
		x := g.xid(&m.Header)
		return m, spec.N("msg.onf.bundle_ctrl", spec.U("xid", x), spec.U("bundle_id", uint64(bc.BundleID)), spec.U("type", uint64(bc.Type)), spec.U("flags", uint64(bc.Flags)))
	case "bundle_add":
		return g.BundleAdd()
	}
	panic("gen: unknown message kind " + kind)
}

// OF 1.3.5 ofp_flow_mod_command / ofp_group_mod_command, by number
var flowModCommands = []uint8{0, 1, 2, 3, 4}

func (g *G) FlowMod() (util.Message, *spec.Node) {
	f := of.NewFlowMod()
	x := g.xid(&f.Header)
	f.Cookie, f.CookieMask, f.TableId = g.U64("cookie"), g.U64("cookie_mask"), g.U8("table")
	cmd := flowModCommands[g.Pick("command", 5)]
	// the command is a plain field: half of the time it is set last, after everything was added under the
	// constructor's default (add), the way a caller turns a prepared flow into its removal
	lateCommand := g.Bool("command_set_last")
	if !lateCommand {
		f.Command = cmd
	}
	f.IdleTimeout, f.HardTimeout, f.Priority = g.U16("idle"), g.U16("hard"), g.U16("prio")
	f.BufferId, f.OutPort, f.OutGroup, f.Flags = g.U32("buffer"), g.U32("out_port"), g.U32("out_group"), g.U16("flags")
	n := spec.N("msg.flow_mod", spec.U("xid", x), spec.U("cookie", f.Cookie), spec.U("cookie_mask", f.CookieMask), spec.U("table_id", uint64(f.TableId)),
		spec.U("command", uint64(cmd)), spec.U("idle_timeout", uint64(f.IdleTimeout)), spec.U("hard_timeout", uint64(f.HardTimeout)),
		spec.U("priority", uint64(f.Priority)), spec.U("buffer_id", uint64(f.BufferId)), spec.U("out_port", uint64(f.OutPort)),
		spec.U("out_group", uint64(f.OutGroup)), spec.U("flags", uint64(f.Flags)))
	g.Budget -= 56
	var mn *spec.Node
	if g.Bool("match_built_in_place") {
		// fields go into the match the constructor made, while a second flow-mod is being prepared at the same
		// time (two rules installed together): each message's match is its own
		sib := of.NewFlowMod()
		mn = g.MatchInto(&f.Match, 14, func() { sib.Match.AddField(*of.NewInPortField(0x5a5a5a5a)) })
		g.Label("match_built_in_place_next_to_another_flow_mod")
	} else {
		var m *of.Match
		m, mn = g.Match(14)
		f.Match = *m
	}
	n.Add(mn)
	k := g.ListLen("ninstr", 8)
	del := cmd == 3 || cmd == 4
	for i := 0; i < k; i++ {
		if g.Budget < 200 && (i >= 2 || g.Budget < 40) { // the budget is a size hint: a small one still allows two instructions
			break
		}
		in, inn, name := g.Instr()
		g.Budget -= 24
		f.AddInstruction(in)
		g.Label("instr=" + name)
		if del {
			// a delete carries no instructions (OF1.3.5 7.3.4.2: "for delete requests the
			// instruction list is ignored"; the library's own size function excludes them):
			// the denoted message has none
			g.Label("delete_with_children")
			continue
		}
		n.Add(inn)
	}
	if lateCommand {
		f.Command = cmd
		g.Label("flow_mod_command_set_last")
	}
	g.Label(fmt.Sprintf("flow_mod_command=%d", f.Command))
	return f, n
}

func (g *G) GroupMod() (util.Message, *spec.Node) {
	gm := of.NewGroupMod()
	x := g.xid(&gm.Header)
	gcmd := uint16(g.Pick("command", 3))
	lateCommand := g.Bool("command_set_last")
	if !lateCommand {
		gm.Command = gcmd
	}
	gm.Type = uint8(g.Pick("type", 4))
	gm.GroupId = g.U32("group_id")
	n := spec.N("msg.group_mod", spec.U("xid", x), spec.U("command", uint64(gcmd)), spec.U("type", uint64(gm.Type)), spec.U("group_id", uint64(gm.GroupId)))
	g.Budget -= 16
	k := g.ListLen("nbuckets", 12)
	for i := 0; i < k; i++ {
		if g.Budget < 200 && (i >= 2 || g.Budget < 40) {
			break
		}
		b, bn := g.Bucket()
		gm.AddBucket(*b)
		if gcmd == 2 { // OFPGC_DELETE
			g.Label("delete_with_children")
			continue
		}
		n.Add(bn)
	}
	if lateCommand {
		gm.Command = gcmd
		g.Label("group_mod_command_set_last")
	}
	g.Label(fmt.Sprintf("group_mod_command=%d", gm.Command))
	return gm, n
}

func (g *G) PacketOut() (util.Message, *spec.Node) {
	p := of.NewPacketOut()
	x := g.xid(&p.Header)
	p.BufferId, p.InPort = g.U32("buffer"), g.U32("in_port")
	n := spec.N("msg.packet_out", spec.U("xid", x), spec.U("buffer_id", uint64(p.BufferId)), spec.U("in_port", uint64(p.InPort)))
	g.Budget -= 24
	var dl int
	switch g.Pick("data_class", 5) {
	case 0:
		dl = 0
	case 1, 2:
		dl = g.Int("data_len_small", 1, 128)
	case 3:
		dl = g.Int("data_len_mid", 129, 1600)
	case 4:
		dl = g.Int("data_len_big", 1601, 9000)
	}
	if dl > g.Budget/2 {
		dl = g.Budget / 2
	}
	if dl < 0 {
		dl = 0 // carried by a bundle-add that has used the budget up
	}
	g.Budget -= dl
	as, ns := g.ActionList("nactions", 40)
	for i := range as {
		p.AddAction(as[i])
		n.Add(ns[i])
	}
	// Late growth (only for the size/embedding and repeatability checks, which set LateGrowth): PacketOut.Len walks
	// its action list when asked, so a conntrack action can still receive nested actions after it was
	// attached. The cached actions_len of the header is then stale, which is why the wire-grammar checks do
	// not use this history (bottom-up construction is their stated precondition).
	if g.LateGrowth && g.Budget > 256 && g.Chance("late_growth_po", 1, 3) {
		ct := of.NewNXActionConnTrack()
		p.AddAction(ct)
		for i, k := 0, g.Int("late_nested_po", 1, 3); i < k; i++ {
			sub, sn := genNAT(g)
			g.Budget -= len(spec.Encode(sn))
			ct.AddAction(sub)
		}
		g.Label("late_growth_in_packet_out")
	}
	data := g.Bytes("data", dl)
	p.SetData(g.Carve(data))
	n.With(spec.B("data", data))
	if dl > 0 {
		g.Label("packet_out_payload")
	}
	return p, n
}

func (g *G) MultipartRequest() (util.Message, *spec.Node) {
	h := of.NewOfp13Header()
	h.Type = of.Type_MultiPartRequest
	m := &of.MultipartRequest{Header: h}
	x := g.xid(&m.Header)
	m.Flags = g.U16("flags")
	n := spec.N("msg.multipart_request", spec.U("xid", x), spec.U("mp_type", 0), spec.U("flags", uint64(m.Flags)))
	g.Budget -= 16
	kind := g.Pick("mp_type", 6)
	for g.Avoid[fmt.Sprintf("mp_request=%d", kind)] {
		kind = g.Pick("mp_type_again", 6)
	}
	if !g.Avoid["mp_request=raw"] && g.Chance("mp_other_type", 1, 6) {
		// the types the library has no body type for (group, meter, table-features, port-desc, experimenter ...):
		// Body is any util.Message, a caller supplies the body bytes in a util.Buffer (empty for the body-less ones)
		ty := []uint16{6, 7, 8, 9, 10, 11, 12, 13, 0xffff}[g.Pick("mp_other", 9)]
		var body []byte
		switch ty {
		case 6, 9, 10: // ofp_group_stats_request / ofp_meter_multipart_request: 8 bytes
			body = g.Bytes("mp_other_body", 8)
		case 12: // table features: empty (read) or a list of ofp_table_features (multiples of 8)
			body = g.Bytes("mp_other_body", 8*g.Int("mp_tf_words", 0, 24))
		case 0xffff:
			body = g.Bytes("mp_other_body", 8+g.Int("mp_exp_len", 0, 40))
		}
		m.Type = ty
		m.Body = util.NewBuffer(cp(body))
		n.Set("mp_type", uint64(ty))
		if len(body) > 0 {
			n.Add(spec.N("mpreq.raw").With(spec.B("data", body)))
		}
		g.Label(fmt.Sprintf("mp_request=%d(raw body)", ty))
		return m, n
	}
	switch kind {
	case 0:
		m.Type = of.MultipartType_Desc
		m.Body = util.NewBuffer([]byte{})
	case 3:
		m.Type = of.MultipartType_Table
		m.Body = util.NewBuffer([]byte{})
	case 1:
		m.Type = of.MultipartType_Flow
		r := of.NewFlowStatsRequest()
		r.TableId, r.OutPort, r.OutGroup, r.Cookie, r.CookieMask = g.U8("table"), g.U32("out_port"), g.U32("out_group"), g.U64("cookie"), g.U64("cookie_mask")
		mt, mn := g.Match(10)
		r.Match = *mt
		m.Body = r
		n.Add(spec.N("mpreq.flow", spec.U("table_id", uint64(r.TableId)), spec.U("out_port", uint64(r.OutPort)), spec.U("out_group", uint64(r.OutGroup)),
			spec.U("cookie", r.Cookie), spec.U("cookie_mask", r.CookieMask)).Add(mn))
	case 2:
		m.Type = of.MultipartType_Aggregate
		r := of.NewAggregateStatsRequest()
		r.TableId, r.OutPort, r.OutGroup, r.Cookie, r.CookieMask = g.U8("table"), g.U32("out_port"), g.U32("out_group"), g.U64("cookie"), g.U64("cookie_mask")
		mt, mn := g.Match(10)
		r.Match = *mt
		m.Body = r
		n.Add(spec.N("mpreq.aggregate", spec.U("table_id", uint64(r.TableId)), spec.U("out_port", uint64(r.OutPort)), spec.U("out_group", uint64(r.OutGroup)),
			spec.U("cookie", r.Cookie), spec.U("cookie_mask", r.CookieMask)).Add(mn))
	case 4:
		m.Type = of.MultipartType_Port
		r := of.NewPortStatsRequest()
		r.PortNo = g.U16("port_no")
		m.Body = r
		n.Add(spec.N("mpreq.port", spec.U("port_no", uint64(r.PortNo))))
	case 5:
		m.Type = of.MultipartType_Queue
		r := of.NewQueueStatsRequest()
		r.PortNo, r.QueueId = g.U16("port_no"), g.U32("queue_id")
		m.Body = r
		n.Add(spec.N("mpreq.queue", spec.U("port_no", uint64(r.PortNo)), spec.U("queue_id", uint64(r.QueueId))))
	}
	n.Set("mp_type", uint64(m.Type))
	g.Label(fmt.Sprintf("mp_request=%d", m.Type))
	return m, n
}

func (g *G) BundleAdd() (util.Message, *spec.Node) {
	ba := &of.BundleAdd{BundleID: g.U32("bundle_id"), Flags: g.U16("flags")}
	n := spec.N("msg.onf.bundle_add", spec.U("xid", 0), spec.U("bundle_id", uint64(ba.BundleID)), spec.U("flags", uint64(ba.Flags)))
	g.Budget -= 24
	// embedded message: any of the former (depth <= 2)
	g.Depth++
	var inner util.Message
	var in *spec.Node
	for {
		if !g.Avoid["bundled_error"] && g.Chance("inner_error", 1, 10) {
			// BundleAdd carries any message value; an error message with a payload is the one kind
			// that both directions of the codec handle and whose length is not a multiple of 4
			sm := g.SwitchMessageOf("error")
			inner, in = sm.Lib, sm.Tree
			g.Label("bundled=error")
			break
		}
		k := MessageKinds[g.Pick("inner_kind", len(MessageKinds))]
		if (k == "bundle_add" && g.Depth >= 2) || g.Avoid[k] {
			continue
		}
		inner, in = g.MessageOf(k)
		g.Label("bundled=" + k)
		break
	}
	g.Depth--
	ba.Message = inner
	n.Add(in)
	if g.Chance("props_empty_not_nil", 1, 4) {
		ba.Properties = []of.BundlePropertyExperimenter{} // "no properties" spelled as an empty list
		g.Label("bundle_props_empty_slice")
	}
	if !g.Avoid["bundle_prop"] && g.Chance("props", 1, 4) {
		k := g.Int("nprops", 1, 2)
		for i := 0; i < k; i++ {
			p := of.NewBundlePropertyExperimenter()
			p.ExperimenterID, p.ExperimenterType = g.U32(fmt.Sprintf("prop%d_exp", i)), g.U32(fmt.Sprintf("prop%d_type", i))
			p.Length = 12 // a caller maintains the property length (Appendix B.2)
			ba.Properties = append(ba.Properties, *p)
			n.Add(spec.N("bundle_prop.experimenter", spec.U("experimenter", uint64(p.ExperimenterID)), spec.U("exp_type", uint64(p.ExperimenterType)), spec.B("data", nil)))
		}
		g.Label("bundle_prop")
	}
	m := of.NewBundleAdd(ba)
	n.Set("xid", g.xid(&m.Header))
	return m, n
}
