package gen

import (
	"encoding/binary"
	"fmt"
	"net"

	"github.com/contiv/libOpenflow/protocol"
	"github.com/contiv/libOpenflow/util"
)

// Packet model (DESIGN.md Appendix A.6): every generator returns the library
// value built through the protocol package's constructors/exported fields and
// the wire bytes written independently from the RFC layouts (Ethernet II /
// 802.1Q, RFC 826, RFC 791, RFC 8200, RFC 792, RFC 768).

// Pkt describes a generated frame.
type Pkt struct {
	Eth  *protocol.Ethernet
	Wire []byte
	// What the demultiplexers must select (dynamic types of the payload chain)
	L3   string // "ipv4" | "ipv6" | "arp" | "other"
	L4   string // "icmp" | "udp" | "other" | ""
	Desc string
}

func (g *G) udp(maxData int) (*protocol.UDP, []byte) {
	u := protocol.NewUDP()
	u.PortSrc, u.PortDst, u.Checksum = g.U16("udp_src"), g.U16("udp_dst"), g.U16("udp_csum")
	dl := g.payloadLen("udp_data", maxData)
	data := g.Bytes("udp_data", dl)
	u.Data = cp(data)
	u.Length = uint16(8 + dl + g.claimMore("udp", 1400)) // a caller maintains the datagram length (Appendix B.2)
	w := make([]byte, 8, 8+dl)
	binary.BigEndian.PutUint16(w, u.PortSrc)
	binary.BigEndian.PutUint16(w[2:], u.PortDst)
	binary.BigEndian.PutUint16(w[4:], u.Length)
	binary.BigEndian.PutUint16(w[6:], u.Checksum)
	return u, append(w, data...)
}

func (g *G) icmp(maxData int) (*protocol.ICMP, []byte) {
	i := protocol.NewICMP()
	i.Type, i.Code, i.Checksum = g.U8("icmp_type"), g.U8("icmp_code"), g.U16("icmp_csum")
	dl := g.payloadLen("icmp_data", maxData)
	data := g.Bytes("icmp_data", dl)
	i.Data = cp(data)
	w := []byte{i.Type, i.Code, 0, 0}
	binary.BigEndian.PutUint16(w[2:], i.Checksum)
	return i, append(w, data...)
}

func (g *G) payloadLen(l string, max int) int {
	if max <= 0 {
		return 0
	}
	switch g.Pick(l+"_class", 6) {
	case 0:
		return 0
	case 1, 2, 3:
		return g.Int(l+"_small", 0, min(64, max))
	case 4:
		return g.Int(l+"_mid", 0, min(1500, max))
	}
	return g.Int(l+"_any", 0, max)
}

func min(a, b int) int {
	if a < b {
		return a
	}
	return b
}

func (g *G) other(l string, maxData int) (*util.Buffer, []byte) {
	data := g.Bytes(l, g.payloadLen(l, maxData))
	return util.NewBuffer(cp(data)), data
}

// l4 draws the transport payload for an IP header and returns the protocol
// number that selects it.
func (g *G) l4(v6 bool, maxData int) (util.Message, []byte, uint8, string) {
	switch g.Pick("l4", 3) {
	case 0:
		u, w := g.udp(maxData - 8)
		return u, w, protocol.Type_UDP, "udp"
	case 1:
		i, w := g.icmp(maxData - 4)
		if v6 {
			return i, w, protocol.Type_IPv6ICMP, "icmp"
		}
		return i, w, protocol.Type_ICMP, "icmp"
	}
	// any other protocol number: payload kept as raw bytes
	var proto uint8
	// numbers that mean something to the *other* family or to a neighbouring
	// decoder are drawn on purpose: for this library they are opaque payload
	neighbours := []uint8{protocol.Type_IPv6ICMP, protocol.Type_ICMP, protocol.Type_HBH, protocol.Type_Routing, protocol.Type_Fragment, protocol.Type_TCP, protocol.Type_IGMP, 4, 41, 59, 60, 135, 255}
	for {
		if g.Chance("proto_neighbour", 1, 3) {
			proto = neighbours[g.Pick("proto_neighbour_which", len(neighbours))]
		} else {
			proto = g.U8("proto_other")
		}
		if proto == protocol.Type_UDP || (!v6 && proto == protocol.Type_ICMP) {
			continue
		}
		if v6 && (proto == protocol.Type_IPv6ICMP || proto == protocol.Type_HBH || proto == protocol.Type_Routing || proto == protocol.Type_Fragment) {
			continue
		}
		break
	}
	// a payload this library keeps as opaque bytes may well be a proper message of a protocol it
	// has a decoder for elsewhere (IGMP, TCP): half of those payloads are such messages
	if (proto == protocol.Type_IGMP || proto == protocol.Type_TCP) && g.Bool("l4_structured_opaque") {
		var pr Proto
		if proto == protocol.Type_TCP {
			pr = g.TCPSeg()
		} else {
			switch g.Pick("igmp_kind", 3) {
			case 0:
				pr = g.IGMPv12()
			case 1:
				pr = g.IGMPv3Q()
			default:
				pr = g.IGMPv3Rep()
			}
		}
		if len(pr.Wire) <= maxData {
			g.Label("opaque_payload_is_" + pr.Kind)
			w := cp(pr.Wire)
			if proto == protocol.Type_TCP && len(w) >= 14 {
				// on the wire a TCP header has more bits than the library's TCP type models (RFC 3168 ECE/CWR,
				// RFC 3540 NS, the reserved bits): in an opaque payload they are just bytes and must come back
				w[12] |= g.U8("tcp_reserved_ns") & 0x0f
				w[13] |= g.U8("tcp_ece_cwr") & 0xc0
			}
			return util.NewBuffer(cp(w)), w, proto, "other"
		}
	}
	b, w := g.other("l4_other", maxData)
	return b, w, proto, "other"
}

func (g *G) IPv4Packet(maxData int) (*protocol.IPv4, []byte, string) {
	ip := protocol.NewIPv4()
	ip.Version = 4
	nopt := 0
	if g.Chance("ipv4_options", 1, 3) {
		nopt = g.Int("ipv4_optwords", 1, 10)
	}
	opts := g.Bytes("ipv4_opts", 4*nopt)
	ip.IHL = uint8(5 + nopt)
	wireIHL := ip.IHL
	if nopt == 0 && !g.Avoid["ipv4_ihl_default"] && g.Chance("ipv4_ihl_left_to_library", 1, 3) {
		// a header without options whose length field the caller never touches: NewIPv4 leaves it 0 and the
		// library's size function raises it to the minimum of 5 words before anything is written
		ip.IHL = 0
		g.Label("ipv4_header_length_left_at_constructor_default")
	}
	ip.Options = *util.NewBuffer(cp(opts))
	ip.DSCP = g.U8("dscp") & 0x3f
	ip.ECN = g.U8("ecn") & 3
	ip.Id = g.U16("id")
	ip.Flags = g.U16("flags") & 7
	ip.FragmentOffset = g.U16("fragoff") & 0x1fff
	ip.TTL = g.U8("ttl")
	ip.Checksum = g.U16("csum")
	src, sw := g.IPv4("nw_src")
	dst, dw := g.IPv4("nw_dst")
	ip.NWSrc, ip.NWDst = src, dst
	data, dwire, proto, l4 := g.l4(false, maxData-20-4*nopt)
	ip.Protocol = proto
	ip.Data = data
	ip.Length = uint16(20 + 4*nopt + len(dwire) + g.claimMore("ipv4", 1400))
	w := make([]byte, 20, 20+4*nopt+len(dwire))
	w[0] = 4<<4 | wireIHL
	w[1] = ip.DSCP<<2 | ip.ECN
	binary.BigEndian.PutUint16(w[2:], ip.Length)
	binary.BigEndian.PutUint16(w[4:], ip.Id)
	binary.BigEndian.PutUint16(w[6:], ip.Flags<<13|ip.FragmentOffset)
	w[8], w[9] = ip.TTL, ip.Protocol
	binary.BigEndian.PutUint16(w[10:], ip.Checksum)
	copy(w[12:], sw)
	copy(w[16:], dw)
	w = append(w, opts...)
	w = append(w, dwire...)
	g.Label("ipv4")
	if nopt > 0 {
		g.Label("ipv4_options")
	}
	return ip, w, l4
}

func (g *G) IPv6Packet(maxData int) (*protocol.IPv6, []byte, string) {
	ip := &protocol.IPv6{Version: 6}
	ip.TrafficClass = g.U8("tclass")
	ip.FlowLabel = g.U32("flabel") & 0xfffff
	ip.HopLimit = g.U8("hlim")
	_, sw := g.IPv6("nw_src")
	_, dw := g.IPv6("nw_dst")
	ip.NWSrc, ip.NWDst = net.IP(cp(sw)), net.IP(cp(dw))
	// extension-header chain: any subset of {hop-by-hop, routing, fragment} in any order, no repetition
	order := []int{0, 1, 2}
	for i := 2; i > 0; i-- {
		j := g.Pick(fmt.Sprintf("ext_perm%d", i), i+1)
		order[i], order[j] = order[j], order[i]
	}
	var chain []int
	for _, k := range order {
		if g.Chance(fmt.Sprintf("ext%d", k), 1, 3) {
			chain = append(chain, k)
		}
	}
	data, dwire, proto, l4 := g.l4(true, maxData-40-64)
	ip.Data = data
	extType := []uint8{protocol.Type_HBH, protocol.Type_Routing, protocol.Type_Fragment}
	// next-header values along the chain
	nh := make([]uint8, len(chain)+1)
	for i, k := range chain {
		nh[i] = extType[k]
	}
	nh[len(chain)] = proto
	ip.NextHeader = nh[0]
	var ext []byte
	for i, k := range chain {
		next := nh[i+1]
		switch k {
		case 0:
			h := protocol.NewHopByHopHeader()
			h.NextHeader = next
			hel := g.Int("hbh_hel", 0, 3)
			h.HEL = uint8(hel)
			// fill 8*(hel+1)-2 bytes with TLV options (PadN, type 1, or arbitrary types); the
			// last option takes whatever remains
			remain := 8*(hel+1) - 2
			var ow []byte
			for remain > 0 {
				ol := 0
				if remain >= 2 {
					ol = g.Int("hbh_optlen", 0, remain-2)
					if remain-2-ol == 1 { // one stray byte cannot hold a TLV
						ol++
					}
				} else {
					// cannot happen: remain starts even and every option takes >= 2
					panic("gen: hop-by-hop fill")
				}
				ot := g.U8("hbh_opttype")
				od := g.Bytes("hbh_optdata", ol)
				h.Options = append(h.Options, &protocol.Option{Type: ot, Length: uint8(ol), Data: cp(od)})
				ow = append(ow, ot, uint8(ol))
				ow = append(ow, od...)
				remain -= 2 + ol
			}
			ip.HbhHeader = h
			ext = append(ext, next, uint8(hel))
			ext = append(ext, ow...)
			g.Label("ipv6_hbh")
		case 1:
			h := protocol.NewRoutingHeader()
			h.NextHeader = next
			hel := g.Int("rt_hel", 0, 3)
			h.HEL = uint8(hel)
			h.RoutingType, h.SegmentsLeft = g.U8("rt_type"), g.U8("rt_segs")
			rd := g.Bytes("rt_data", 8*(hel+1)-4)
			h.Data = util.NewBuffer(cp(rd))
			ip.RoutingHeader = h
			ext = append(ext, next, uint8(hel), h.RoutingType, h.SegmentsLeft)
			ext = append(ext, rd...)
			g.Label("ipv6_routing")
		case 2:
			h := protocol.NewFragmentHeader()
			h.NextHeader = next
			h.Reserved = g.U8("frag_res")
			h.FragmentOffset = g.U16("frag_off") & 0x1fff
			h.MoreFragments = g.Bool("frag_m")
			h.Identification = g.U32("frag_id")
			ip.FragmentHeader = h
			fw := make([]byte, 8)
			fw[0], fw[1] = next, h.Reserved
			v := h.FragmentOffset << 3
			if h.MoreFragments {
				v |= 1
			}
			binary.BigEndian.PutUint16(fw[2:], v)
			binary.BigEndian.PutUint32(fw[4:], h.Identification)
			ext = append(ext, fw...)
			g.Label("ipv6_fragment")
		}
	}
	ip.Length = uint16(len(ext) + len(dwire) + g.claimMore("ipv6", 1400))
	w := make([]byte, 40, 40+len(ext)+len(dwire))
	w[0] = 6<<4 | ip.TrafficClass>>4
	w[1] = ip.TrafficClass<<4 | uint8(ip.FlowLabel>>16)
	binary.BigEndian.PutUint16(w[2:], uint16(ip.FlowLabel))
	binary.BigEndian.PutUint16(w[4:], ip.Length)
	w[6], w[7] = ip.NextHeader, ip.HopLimit
	copy(w[8:], sw)
	copy(w[24:], dw)
	w = append(w, ext...)
	w = append(w, dwire...)
	g.Label("ipv6")
	g.Label(fmt.Sprintf("ipv6_ext_chain_len=%d", len(chain)))
	return ip, w, l4
}

func (g *G) ARPPacket() (*protocol.ARP, []byte) {
	op := 1 // RFC 826: ares_op$REQUEST = 1, ares_op$REPLY = 2 (the numbers, not the library's names for them)
	if g.Bool("arp_reply") {
		op = 2
	}
	a, err := protocol.NewARP(op)
	if err != nil {
		panic(Refused{fmt.Sprintf("protocol.NewARP(%d): %v", op, err)})
	}
	sha, tha := g.MAC("arp_sha"), g.MAC("arp_tha")
	spa, spw := g.IPv4("arp_spa")
	tpa, tpw := g.IPv4("arp_tpa")
	a.HWSrc, a.HWDst, a.IPSrc, a.IPDst = net.HardwareAddr(cp(sha)), net.HardwareAddr(cp(tha)), spa, tpa
	w := []byte{0, 1, 8, 0, 6, 4, 0, byte(op)}
	w = append(w, sha...)
	w = append(w, spw...)
	w = append(w, tha...)
	w = append(w, tpw...)
	g.Label("arp")
	return a, w
}

// Ethernet draws a frame of at most maxLen bytes.
func (g *G) Ethernet(maxLen int) Pkt {
	e := protocol.NewEthernet()
	dst, src := g.MAC("eth_dst"), g.MAC("eth_src")
	e.HWDst, e.HWSrc = net.HardwareAddr(cp(dst)), net.HardwareAddr(cp(src))
	w := append(cp(dst), src...)
	p := Pkt{Eth: e}
	hdr := 14
	if g.Chance("vlan", 1, 3) {
		vid := g.U16("vid") & 0xfff
		if vid == 0 && !g.Avoid["vlan_vid0"] {
			// VID 0 is the library's representation of "untagged": a priority tag cannot be
			// built through the API (it is generated bytes-first in C09)
			vid = 1
		} else if vid == 0 {
			vid = 1
		}
		e.VLANID.VID = vid
		e.VLANID.PCP = g.U8("pcp") & 7
		e.VLANID.DEI = g.U8("dei") & 1
		tci := uint16(e.VLANID.PCP)<<13 | uint16(e.VLANID.DEI)<<12 | vid
		w = append(w, 0x81, 0x00, byte(tci>>8), byte(tci))
		hdr += 4
		g.Label("vlan_tag")
	}
	room := maxLen - hdr
	var et uint16
	var payload []byte
	kind := g.Pick("l3", 4)
	if room < 120 {
		kind = 3
	}
	switch kind {
	case 0:
		ip, pw, l4 := g.IPv4Packet(room)
		e.Data, et, payload, p.L3, p.L4 = ip, protocol.IPv4_MSG, pw, "ipv4", l4
	case 1:
		ip, pw, l4 := g.IPv6Packet(room)
		e.Data, et, payload, p.L3, p.L4 = ip, protocol.IPv6_MSG, pw, "ipv6", l4
	case 2:
		a, pw := g.ARPPacket()
		e.Data, et, payload, p.L3 = a, protocol.ARP_MSG, pw, "arp"
	default:
		for {
			et = g.U16("ethertype_other")
			if et != protocol.IPv4_MSG && et != protocol.IPv6_MSG && et != protocol.ARP_MSG && et != protocol.VLAN_MSG {
				break
			}
		}
		if hdr == 18 && g.Chance("qinq_as_payload", 1, 6) {
			// a second 802.1Q tag behind the first: the library models one tag, the rest is opaque payload
			et = protocol.VLAN_MSG
			g.Label("inner_ethertype_8100")
		}
		b, pw := g.other("l3_other", room)
		e.Data, payload, p.L3 = b, pw, "other"
		g.Label("l3_other")
	}
	e.Ethertype = et
	w = append(w, byte(et>>8), byte(et))
	p.Wire = append(w, payload...)
	p.Desc = fmt.Sprintf("eth(vlan=%d)/%s/%s len=%d", e.VLANID.VID, p.L3, p.L4, len(p.Wire))
	return p
}
