package gen

import (
	"encoding/binary"
	"fmt"
	"net"

	"github.com/contiv/libOpenflow/protocol"
	"github.com/contiv/libOpenflow/util"
)

// Stand-alone header kinds that the demultiplexers do not reach (TCP, IGMP,
// DHCP, LLDP) and the IPv6 extension headers / options on their own: library
// value through constructors and exported fields + wire bytes from the RFC
// layouts (RFC 793, 2236, 3376, 2131/2132, IEEE 802.1AB).

// Proto is a generated header value with the bytes it denotes.
type Proto struct {
	Kind string
	Val  util.Message // nil for the Read/Write kinds (DHCP, LLDP), see the dedicated fields
	Wire []byte
}

func (g *G) ip4(l string) (net.IP, []byte) {
	w := g.Bytes(l, 4)
	ip := make(net.IP, 4)
	copy(ip, w)
	return ip, w
}

func (g *G) TCPSeg() Proto {
	t := protocol.NewTCP()
	t.PortSrc, t.PortDst = g.U16("tcp_src"), g.U16("tcp_dst")
	t.SeqNum, t.AckNum = g.U32("tcp_seq"), g.U32("tcp_ack")
	optw := 0
	if g.Chance("tcp_opts", 1, 3) {
		optw = g.Int("tcp_optwords", 1, 10)
	}
	t.HdrLen = uint8(5 + optw)
	t.Code = g.U8("tcp_flags") & 0x3f
	t.WinSize, t.Checksum, t.UrgFlag = g.U16("tcp_win"), g.U16("tcp_csum"), g.U16("tcp_urg")
	data := g.Bytes("tcp_data", 4*optw+g.payloadLen("tcp_payload", 200))
	t.Data = cp(data)
	w := make([]byte, 20)
	binary.BigEndian.PutUint16(w, t.PortSrc)
	binary.BigEndian.PutUint16(w[2:], t.PortDst)
	binary.BigEndian.PutUint32(w[4:], t.SeqNum)
	binary.BigEndian.PutUint32(w[8:], t.AckNum)
	w[12] = t.HdrLen << 4
	w[13] = t.Code
	binary.BigEndian.PutUint16(w[14:], t.WinSize)
	binary.BigEndian.PutUint16(w[16:], t.Checksum)
	binary.BigEndian.PutUint16(w[18:], t.UrgFlag)
	return Proto{"TCP", t, append(w, data...)}
}

func (g *G) IGMPv12() Proto {
	grp, gw := g.ip4("igmp_group")
	var m *protocol.IGMPv1or2
	mrt := uint8(0)
	switch g.Pick("igmp12_kind", 5) {
	case 0:
		m = protocol.NewIGMPv1Query(grp)
	case 1:
		m = protocol.NewIGMPv1Report(grp)
	case 2:
		mrt = g.U8("igmp_mrt")
		m = protocol.NewIGMPv2Query(grp, mrt)
	case 3:
		m = protocol.NewIGMPv2Report(grp)
	default:
		m = protocol.NewIGMPv2Leave(grp)
	}
	m.Checksum = g.U16("igmp_csum")
	w := []byte{m.Type, m.MaxResponseTime, byte(m.Checksum >> 8), byte(m.Checksum)}
	return Proto{"IGMPv1or2", m, append(w, gw...)}
}

func (g *G) ip4List(l string, n int) ([]net.IP, []byte) {
	var ips []net.IP
	var w []byte
	for i := 0; i < n; i++ {
		ip, b := g.ip4(fmt.Sprintf("%s%d", l, i))
		if g.Bool(l + "_form16") {
			ip = net.IPv4(b[0], b[1], b[2], b[3])
		}
		ips = append(ips, ip)
		w = append(w, b...)
	}
	return ips, w
}

func (g *G) IGMPv3Q() Proto {
	grp, gw := g.ip4("igmp_group")
	srcs, sw := g.ip4List("igmp_src", g.ListLen("igmp_nsrc", 30))
	mrt, qqic := g.U8("igmp_mrt"), g.U8("igmp_qqic")
	if g.Chance("igmp_general_query", 1, 5) {
		// a general query: no group (RFC 3376 4.1.3: the group address field is zero)
		grp, gw = nil, []byte{0, 0, 0, 0}
		g.Label("igmpv3_general_query_nil_group")
	}
	q := protocol.NewIGMPv3Query(grp, mrt, qqic, srcs)
	q.Checksum = g.U16("igmp_csum")
	q.SuppressRouterProcessing = g.Bool("igmp_s")
	q.RobustnessValue = g.U8("igmp_qrv") & 7
	s := byte(0)
	if q.SuppressRouterProcessing {
		s = 8
	}
	w := []byte{0x11, mrt, byte(q.Checksum >> 8), byte(q.Checksum)}
	w = append(w, gw...)
	w = append(w, s|q.RobustnessValue, qqic, byte(len(srcs)>>8), byte(len(srcs)))
	return Proto{"IGMPv3Query", q, append(w, sw...)}
}

func (g *G) igmpRecord(i int) (protocol.IGMPv3GroupRecord, []byte) {
	grp, gw := g.ip4(fmt.Sprintf("rec%d_group", i))
	srcs, sw := g.ip4List(fmt.Sprintf("rec%d_src", i), g.ListLen("rec_nsrc", 12))
	rt := uint8(g.Int("rec_type", 1, 6))
	r := protocol.NewGroupRecord(rt, grp, srcs)
	w := []byte{rt, 0, byte(len(srcs) >> 8), byte(len(srcs))}
	w = append(w, gw...)
	w = append(w, sw...)
	if g.Chance("rec_aux", 1, 5) {
		n := g.Int("rec_auxlen", 1, 3)
		r.AuxDataLen = uint8(n)
		w[1] = byte(n)
		for j := 0; j < n; j++ {
			v := g.U32("rec_auxword")
			r.AuxData = append(r.AuxData, v)
			w = binary.BigEndian.AppendUint32(w, v)
		}
	}
	return r, w
}

func (g *G) IGMPv3Rec() Proto {
	r, w := g.igmpRecord(0)
	return Proto{"IGMPv3GroupRecord", &r, w}
}

func (g *G) IGMPv3Rep() Proto {
	n := g.ListLen("igmp_ngroups", 10)
	var recs []protocol.IGMPv3GroupRecord
	var rw []byte
	for i := 0; i < n; i++ {
		r, w := g.igmpRecord(i)
		recs = append(recs, r)
		rw = append(rw, w...)
	}
	m := protocol.NewIGMPv3Report(recs)
	m.Checksum = g.U16("igmp_csum")
	w := []byte{0x22, 0, byte(m.Checksum >> 8), byte(m.Checksum), 0, 0, byte(n >> 8), byte(n)}
	return Proto{"IGMPv3MembershipReport", m, append(w, rw...)}
}

// DHCPMsg: built with NewDHCP + exported fields + options through the option
// constructors; Wire = RFC 2131 fixed part, magic, RFC 2132 options, END.
type DHCPMsg struct {
	Val  *protocol.DHCP
	Wire []byte
	Opts [][2]any // (tag, data) in order up to the first END, for field-wise comparison with a decoded value
	// Read: the prefix of Wire a decoder reads (up to and including the first END);
	// bytes behind it are filler that a decoded value does not carry
	Read int
}

func (g *G) DHCP() DHCPMsg {
	op := protocol.DHCPOperation(g.Int("dhcp_op", 1, 2))
	xid := g.U32("dhcp_xid")
	if xid == 0 {
		xid = 1 // NewDHCP replaces 0 by a random id
	}
	d, err := protocol.NewDHCP(xid, op, protocol.DHCP_HW_ETHERNET)
	if err != nil {
		panic(err)
	}
	hl := 6
	if g.Chance("dhcp_hlen_other", 1, 4) {
		hl = g.Int("dhcp_hlen", 0, 16)
	}
	// a third of the messages start from one of the message-type constructors (they pre-fill the hardware
	// address and a message-type option, and use the message type as the operation code)
	var preOpts [][2]any
	if g.Chance("dhcp_ctor", 1, 3) {
		hw0 := net.HardwareAddr(g.Bytes("dhcp_ctor_hw", 6))
		ctors := []func(uint32, net.HardwareAddr) (*protocol.DHCP, error){protocol.NewDHCPDiscover, protocol.NewDHCPOffer, protocol.NewDHCPRequest, protocol.NewDHCPAck, protocol.NewDHCPNak}
		if d, err = ctors[g.Pick("dhcp_ctor_kind", len(ctors))](xid, hw0); err != nil {
			panic(err)
		}
		op = d.Operation
		for _, o := range d.Options {
			preOpts = append(preOpts, [2]any{o.OptionType(), cp(o.Bytes())})
		}
		g.Label("dhcp_from_constructor")
	}
	d.HardwareLen = uint8(hl)
	d.HardwareOpts = g.U8("dhcp_hops")
	d.Secs, d.Flags = g.U16("dhcp_secs"), g.U16("dhcp_flags")
	var cw, yw, sw, gw []byte
	// each address is set by the caller or left as the constructor made it (0.0.0.0: a client that has no
	// address yet, no relay, ...)
	addr := func(l string, field *net.IP) []byte {
		if g.Chance(l+"_left_at_default", 1, 4) {
			g.Label("dhcp_address_left_at_constructor_default")
			return []byte{0, 0, 0, 0}
		}
		ip, w := g.ip4(l)
		*field = ip
		return w
	}
	cw = addr("dhcp_ciaddr", &d.ClientIP)
	yw = addr("dhcp_yiaddr", &d.YourIP)
	sw = addr("dhcp_siaddr", &d.ServerIP)
	gw = addr("dhcp_giaddr", &d.GatewayIP)
	hw := g.Bytes("dhcp_chaddr", hl)
	d.ClientHWAddr = net.HardwareAddr(cp(hw))
	sn, fl := g.Bytes("dhcp_sname", 64), g.Bytes("dhcp_file", 128)
	copy(d.ServerName[:], sn)
	copy(d.File[:], fl)
	w := []byte{byte(op), 1, byte(hl), d.HardwareOpts}
	w = binary.BigEndian.AppendUint32(w, xid)
	w = binary.BigEndian.AppendUint16(w, d.Secs)
	w = binary.BigEndian.AppendUint16(w, d.Flags)
	w = append(append(append(append(w, cw...), yw...), sw...), gw...)
	ch := make([]byte, 16)
	copy(ch, hw)
	w = append(append(append(w, ch...), sn...), fl...)
	w = append(w, 0x63, 0x82, 0x53, 0x63)
	m := DHCPMsg{Val: d}
	for _, po := range preOpts {
		data := po[1].([]byte)
		w = append(w, po[0].(byte), byte(len(data)))
		w = append(w, data...)
		m.Opts = append(m.Opts, po)
	}
	n := g.ListLen("dhcp_nopts", 12)
	ended := false // an END option has been written: what follows is on the wire but no decoder reads it
	for i := 0; i < n; i++ {
		tag := byte(g.Int("dhcp_tag", 0, 254))
		if !ended && i > 0 && g.Chance("dhcp_end_inside", 1, 12) {
			// END followed by more options: RFC 2132 3.2 has the sender fill up with PAD
			// after END (BOOTP relays want 300 bytes); other options behind it are legal
			// bytes too, just never read
			d.Options = append(d.Options, protocol.DHCPNewOption(255, nil))
			w = append(w, 255)
			ended = true
			m.Read = len(w)
			g.Label("dhcp_end_not_last")
			if g.Chance("dhcp_pad_fill", 2, 3) {
				for k := g.Int("dhcp_fill", 1, 60); k > 0; k-- {
					d.Options = append(d.Options, protocol.DHCPNewOption(0, []byte{}))
					w = append(w, 0)
				}
				break
			}
		}
		if tag == 0 {
			d.Options = append(d.Options, protocol.DHCPNewOption(0, []byte{}))
			w = append(w, 0)
			if !ended {
				m.Opts = append(m.Opts, [2]any{tag, []byte{}})
			}
			g.Label("dhcp_pad_option")
			continue
		}
		var data []byte
		var opt protocol.DHCPOption
		switch g.Pick("dhcp_opt_ctor", 6) {
		case 0: // one address (subnet mask, server id, requested address, ...)
			ip, w := g.ip4("dhcp_opt_ip")
			opt, _ = protocol.DHCPIP4Option(tag, ip)
			data = w
			g.Label("dhcp_option_ctor=ip4")
		case 1: // address list (routers, DNS servers, ...)
			ips, w := g.ip4List("dhcp_opt_ips", g.Int("dhcp_opt_nips", 0, 8))
			opt, _ = protocol.DHCPIP4sOption(tag, ips)
			data = w
			g.Label("dhcp_option_ctor=ip4s")
		case 2: // text (host name, domain, message)
			data = g.Bytes("dhcp_optstr", g.Int("dhcp_optstrlen", 0, 40))
			opt, _ = protocol.DHCPStringOption(tag, string(data))
			g.Label("dhcp_option_ctor=string")
		default:
			data = g.Bytes("dhcp_optdata", g.Int("dhcp_optlen", 0, 40))
			opt = protocol.DHCPNewOption(tag, cp(data))
		}
		d.Options = append(d.Options, opt)
		w = append(w, tag, byte(len(data)))
		w = append(w, data...)
		if !ended {
			m.Opts = append(m.Opts, [2]any{tag, data})
		}
	}
	if !ended {
		if g.Bool("dhcp_explicit_end") {
			d.Options = append(d.Options, protocol.DHCPNewOption(255, nil))
			g.Label("dhcp_explicit_end")
		}
		w = append(w, 255)
		m.Read = len(w)
	}
	m.Wire = w
	return m
}

// LLDPMsg: chassis id, port id and TTL TLVs (the three mandatory ones), built
// through exported fields the way the library's own Read/Write pair expects
// (Length = number of id bytes), and the IEEE 802.1AB wire form.
type LLDPMsg struct {
	Val  *protocol.LLDP
	Wire []byte // 802.1AB: TLV length covers subtype + id (used as a case fingerprint only; ids over 510 bytes do not fit that form)
}

func (g *G) LLDP() LLDPMsg {
	// id lengths: short ones mostly; sometimes the values around the 8-bit boundary of the 9-bit TLV length
	// (the library stores the id length in that field, so every id of up to 511 bytes is within its width)
	idLen := func(label string) int {
		if g.Chance(label+"_long", 1, 5) {
			g.Label("lldp_id_length_needs_bit8_or_near")
			return []int{254, 255, 256, 257, 300, 384, 510, 511}[g.Pick(label+"_longlen", 8)]
		}
		return g.Int(label, 1, 30)
	}
	cid := g.Bytes("lldp_chassis", idLen("lldp_chlen"))
	pid := g.Bytes("lldp_port", idLen("lldp_polen"))
	cs, ps := uint8(g.Int("lldp_chsub", 1, 7)), uint8(g.Int("lldp_posub", 1, 7))
	ttl := g.U16("lldp_ttl")
	l := &protocol.LLDP{
		Chassis: protocol.ChassisTLV{Type: 1, Length: uint16(len(cid)), Subtype: cs, Data: cp(cid)},
		Port:    protocol.PortTLV{Type: 2, Length: uint16(len(pid)), Subtype: ps, Data: cp(pid)},
		TTL:     protocol.TTLTLV{Type: 3, Length: 2, Seconds: ttl},
	}
	tlv := func(ty int, body []byte) []byte {
		h := uint16(ty)<<9 | uint16(len(body))
		return append([]byte{byte(h >> 8), byte(h)}, body...)
	}
	w := tlv(1, append([]byte{cs}, cid...))
	w = append(w, tlv(2, append([]byte{ps}, pid...))...)
	w = append(w, tlv(3, []byte{byte(ttl >> 8), byte(ttl)})...)
	return LLDPMsg{l, w}
}

// ExtHeaders: stand-alone IPv6 option / hop-by-hop / routing / fragment values.
func (g *G) IPv6Opt() Proto {
	dl := g.Int("opt_len", 0, 60)
	d := g.Bytes("opt_data", dl)
	o := &protocol.Option{Type: g.U8("opt_type"), Length: uint8(dl), Data: cp(d)}
	return Proto{"Option", o, append([]byte{o.Type, o.Length}, d...)}
}

func (g *G) IPv6Frag() Proto {
	h := protocol.NewFragmentHeader()
	h.NextHeader, h.Reserved = g.U8("frag_nh"), g.U8("frag_res")
	h.FragmentOffset = g.U16("frag_off") & 0x1fff
	h.MoreFragments = g.Bool("frag_m")
	h.Identification = g.U32("frag_id")
	v := h.FragmentOffset << 3
	if h.MoreFragments {
		v |= 1
	}
	w := []byte{h.NextHeader, h.Reserved, byte(v >> 8), byte(v)}
	return Proto{"FragmentHeader", h, binary.BigEndian.AppendUint32(w, h.Identification)}
}

func (g *G) IPv6Routing() Proto {
	h := protocol.NewRoutingHeader()
	hel := g.Int("rt_hel", 0, 20)
	if g.Chance("rt_hel_boundary", 1, 4) {
		hel = []int{31, 127, 128, 254, 255}[g.Pick("rt_hel_b", 5)] // header-extension length is a byte: sizes up to 2048
	}
	h.NextHeader, h.HEL, h.RoutingType, h.SegmentsLeft = g.U8("rt_nh"), uint8(hel), g.U8("rt_type"), g.U8("rt_segs")
	rd := g.Bytes("rt_data", 8*(hel+1)-4)
	h.Data = util.NewBuffer(cp(rd))
	return Proto{"RoutingHeader", h, append([]byte{h.NextHeader, h.HEL, h.RoutingType, h.SegmentsLeft}, rd...)}
}

func (g *G) IPv6HBH() Proto {
	h := protocol.NewHopByHopHeader()
	hel := g.Int("hbh_hel", 0, 12)
	if g.Chance("hbh_hel_boundary", 1, 4) {
		hel = []int{31, 127, 128, 254, 255}[g.Pick("hbh_hel_b", 5)]
	}
	h.NextHeader, h.HEL = g.U8("hbh_nh"), uint8(hel)
	remain := 8*(hel+1) - 2
	w := []byte{h.NextHeader, h.HEL}
	for remain > 0 {
		mx := remain - 2
		if mx > 255 {
			mx = 255
		}
		ol := g.Int("hbh_optlen", 0, mx)
		if g.Chance("hbh_optlen_max", 1, 6) {
			ol = mx // option lengths up to 255 (254/255 are where 8-bit size arithmetic wraps)
		}
		if remain-2-ol == 1 {
			if ol < 255 {
				ol++
			} else {
				ol--
			}
		}
		ot := g.U8("hbh_opttype")
		if g.Chance("hbh_padn_shorthand", 1, 5) {
			// PadN written the short way: Length says how many zero bytes follow, Data is left nil
			h.Options = append(h.Options, &protocol.Option{Type: 1, Length: uint8(ol)})
			w = append(append(w, 1, uint8(ol)), make([]byte, ol)...)
			g.Label("padn_without_data")
		} else {
			od := g.Bytes("hbh_optdata", ol)
			h.Options = append(h.Options, &protocol.Option{Type: ot, Length: uint8(ol), Data: cp(od)})
			w = append(append(w, ot, uint8(ol)), od...)
		}
		remain -= 2 + ol
	}
	return Proto{"HopByHopHeader", h, w}
}

// VLANTag: the 4 bytes the VLAN type encodes: TPID + TCI... the library's
// VLAN value sits between the addresses and the inner ethertype.
func (g *G) VLANTag() (*protocol.VLAN, []byte) {
	v := protocol.NewVLAN()
	v.PCP, v.DEI, v.VID = g.U8("pcp")&7, g.U8("dei")&1, g.U16("vid")&0xfff
	tci := uint16(v.PCP)<<13 | uint16(v.DEI)<<12 | v.VID
	return v, []byte{0x81, 0x00, byte(tci >> 8), byte(tci)}
}

// ProtoKinds draws one stand-alone header value of any MarshalBinary kind.
func (g *G) ProtoValue() Proto {
	switch g.Pick("proto_kind", 15) {
	case 0:
		return g.TCPSeg()
	case 1:
		return g.IGMPv12()
	case 2:
		return g.IGMPv3Q()
	case 3:
		return g.IGMPv3Rec()
	case 4:
		return g.IGMPv3Rep()
	case 5:
		return g.IPv6Opt()
	case 6:
		return g.IPv6Frag()
	case 7:
		return g.IPv6Routing()
	case 8:
		return g.IPv6HBH()
	case 9:
		u, w := g.udp(200)
		return Proto{"UDP", u, w}
	case 10:
		i, w := g.icmp(200)
		return Proto{"ICMP", i, w}
	case 11:
		a, w := g.ARPPacket()
		return Proto{"ARP", a, w}
	case 12:
		ip, w, _ := g.IPv4Packet(400)
		return Proto{"IPv4", ip, w}
	case 14:
		v, w := g.VLANTag()
		return Proto{"VLAN", v, w}
	default:
		ip, w, _ := g.IPv6Packet(500)
		return Proto{"IPv6", ip, w}
	}
}
