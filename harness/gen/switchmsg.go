package gen

import (
	"fmt"

	"github.com/contiv/libOpenflow/common"
	of "github.com/contiv/libOpenflow/openflow13"
	"github.com/contiv/libOpenflow/util"
	"verifharness/spec"
)

// Switch-originated kinds (C04's domain), dual construction: the library value
// serves the round-trip checks (C05/C06/C13), the tree is what a conforming
// switch would put on the wire (C04 encodes it with the model's encoder).

var SwitchKinds = []string{"hello", "error", "error_exp", "echo_request", "echo_reply", "features_reply", "get_config_reply", "packet_in",
	"flow_removed", "port_status", "mp_reply_desc", "mp_reply_flow", "mp_reply_aggregate", "mp_reply_table", "mp_reply_port", "mp_reply_queue",
	"barrier_reply", "nx_tlv_table_reply", "bundle_ctrl_reply"}

// SwitchMsg: Lib may be nil when the library has no way to build the kind
// (echo with payload, hello with unknown elements); Tree is always set.
type SwitchMsg struct {
	Kind string
	Lib  util.Message
	Tree *spec.Node
	Pkt  *Pkt // packet-in payload description
	// Cut: the packet-in carries only the first CutAt bytes of Pkt.Wire (see G.CutPackets)
	Cut   bool
	CutAt int
}

func (g *G) portDual() (*of.PhyPort, *spec.Node) {
	p := of.NewPhyPort()
	p.PortNo = g.U32("port_no")
	hw := g.MAC("hw_addr")
	copy(p.HWAddr, hw)
	name := g.Bytes("name", 16)
	copy(p.Name, name)
	p.Config, p.State, p.Curr, p.Advertised = g.U32("config"), g.U32("state"), g.U32("curr"), g.U32("advertised")
	p.Supported, p.Peer, p.CurrSpeed, p.MaxSpeed = g.U32("supported"), g.U32("peer"), g.U32("curr_speed"), g.U32("max_speed")
	n := spec.N("port", spec.U("port_no", uint64(p.PortNo)), spec.B("hw_addr", hw), spec.B("name", name), spec.U("config", uint64(p.Config)),
		spec.U("state", uint64(p.State)), spec.U("curr", uint64(p.Curr)), spec.U("advertised", uint64(p.Advertised)), spec.U("supported", uint64(p.Supported)),
		spec.U("peer", uint64(p.Peer)), spec.U("curr_speed", uint64(p.CurrSpeed)), spec.U("max_speed", uint64(p.MaxSpeed)))
	return p, n
}

func (g *G) SwitchMessage() SwitchMsg {
	kind := SwitchKinds[g.Pick("swkind", len(SwitchKinds))]
	for g.Avoid[kind] {
		kind = SwitchKinds[g.Pick("swkind_again", len(SwitchKinds))]
	}
	return g.SwitchMessageOf(kind)
}

func (g *G) SwitchMessageOf(kind string) SwitchMsg {
	sm := SwitchMsg{Kind: kind}
	hdr := func(t uint8) (common.Header, uint64) {
		h := of.NewOfp13Header()
		h.Type = t
		x := g.xid(&h)
		return h, x
	}
	switch kind {
	case "hello":
		x := uint64(g.U32("xid"))
		n := spec.N("msg.hello", spec.U("xid", x))
		k := g.Int("nelems", 1, 3)
		libOK := true
		h, _ := common.NewHello(4)
		h.Header.Xid = uint32(x)
		if !g.Avoid["hello_higher_version"] && g.Chance("hello_higher_version", 1, 3) {
			// a switch that also speaks 1.4 / 1.5 puts its highest version into the hello header and lists
			// 1.3 in the bitmap (OF 1.3.5 6.3.1); the header version of a hello is not a reason to refuse it
			ver := uint64(g.Int("hello_version", 5, 6))
			n.With(spec.U("version", ver))
			h.Header.Version = uint8(ver)
			g.Label("hello_header_version_above_1.3")
		}
		h.Elements = h.Elements[:0]
		for i := 0; i < k; i++ {
			if g.Chance(fmt.Sprintf("unknown%d", i), 1, 4) {
				// an element type the receiver does not know: must be skipped
				et := uint64(g.Int(fmt.Sprintf("etype%d", i), 2, 0xffff))
				n.Add(spec.N("hello.unknown", spec.U("type", et), spec.B("data", g.Bytes(fmt.Sprintf("edata%d", i), g.Int(fmt.Sprintf("elen%d", i), 0, 20)))))
				libOK = false
				g.Label("hello_unknown_element")
				continue
			}
			nb := g.Int(fmt.Sprintf("nbitmaps%d", i), 1, 4)
			e := common.NewHelloElemVersionBitmap()
			e.Bitmaps = e.Bitmaps[:0]
			var w []byte
			for j := 0; j < nb; j++ {
				v := g.U32(fmt.Sprintf("bitmap%d_%d", i, j))
				e.Bitmaps = append(e.Bitmaps, v)
				w = append(w, be32b(v)...)
			}
			e.Length = uint16(4 + 4*nb)
			h.Elements = append(h.Elements, e)
			n.Add(spec.N("hello.versionbitmap", spec.B("bitmaps", w)))
			g.Label(fmt.Sprintf("hello_bitmaps=%d", nb))
		}
		sm.Tree = n
		if libOK {
			sm.Lib = h
		}
	case "error":
		e := of.NewErrorMsg()
		e.Header, _ = hdr(of.Type_Error)
		for {
			e.Type = g.U16("type")
			if e.Type != 0xffff {
				break
			}
		}
		e.Code = g.U16("code")
		data := g.Bytes("data", g.Int("dlen", 0, 200))
		e.Data = *util.NewBuffer(cp(data))
		e.Header.Length = uint16(12 + len(data))
		sm.Lib = e
		sm.Tree = spec.N("msg.error", spec.U("xid", uint64(e.Header.Xid)), spec.U("type", uint64(e.Type)), spec.U("code", uint64(e.Code)), spec.B("data", data))
	case "error_exp":
		e := of.NewBundleError()
		x := g.xid(&e.Header)
		e.Header.Type = of.Type_Error
		e.Code = g.U16("exp_type")
		e.ExperimenterID = g.U32("experimenter")
		data := g.Bytes("data", g.Int("dlen", 0, 200))
		e.Data = *util.NewBuffer(cp(data))
		e.Header.Length = uint16(16 + len(data))
		sm.Lib = e
		sm.Tree = spec.N("msg.error_exp", spec.U("xid", x), spec.U("exp_type", uint64(e.Code)), spec.U("experimenter", uint64(e.ExperimenterID)), spec.B("data", data))
	case "echo_request", "echo_reply":
		t := uint8(of.Type_EchoRequest)
		if kind == "echo_reply" {
			t = of.Type_EchoReply
		}
		h, x := hdr(t)
		data := g.Bytes("data", g.Int("dlen", 0, 64))
		sm.Tree = spec.N("msg."+kind, spec.U("xid", x), spec.B("data", data))
		if len(data) == 0 {
			sm.Lib = &h
		} else {
			g.Label("echo_payload")
		}
	case "barrier_reply":
		h, x := hdr(of.Type_BarrierReply)
		sm.Lib = &h
		sm.Tree = spec.N("msg.barrier_reply", spec.U("xid", x))
	case "features_reply":
		f := of.NewFeaturesReply()
		x := g.xid(&f.Header)
		dpid := g.Bytes("dpid", 8)
		copy(f.DPID, dpid)
		f.Buffers, f.NumTables, f.AuxilaryId, f.Capabilities, f.Actions = g.U32("n_buffers"), g.U8("n_tables"), g.U8("aux"), g.U32("caps"), g.U32("reserved")
		sm.Lib = f
		sm.Tree = spec.N("msg.features_reply", spec.U("xid", x), spec.U("datapath_id", uint64(be64v(dpid))), spec.U("n_buffers", uint64(f.Buffers)),
			spec.U("n_tables", uint64(f.NumTables)), spec.U("auxiliary_id", uint64(f.AuxilaryId)), spec.U("capabilities", uint64(f.Capabilities)), spec.U("reserved", uint64(f.Actions)))
	case "get_config_reply":
		c := of.NewSetConfig()
		c.Header.Type = of.Type_GetConfigReply
		x := g.xid(&c.Header)
		c.Flags, c.MissSendLen = g.U16("flags"), g.U16("miss_send_len")
		sm.Lib = c
		sm.Tree = spec.N("msg.get_config_reply", spec.U("xid", x), spec.U("flags", uint64(c.Flags)), spec.U("miss_send_len", uint64(c.MissSendLen)))
	case "packet_in":
		p := of.NewPacketIn()
		x := g.xid(&p.Header)
		p.BufferId, p.TotalLen, p.Reason, p.TableId, p.Cookie = g.U32("buffer_id"), g.U16("total_len"), g.U8("reason"), g.U8("table_id"), g.U64("cookie")
		g.Budget -= 34
		m, mn := g.Match(12)
		p.Match = *m
		maxp := g.Budget - 100
		if maxp > 9000 {
			maxp = 9000
		}
		if maxp < 300 {
			maxp = 300 // the byte budget is soft for the payload: a frame needs room for its headers
		}
		g.TruncatedPackets = !g.Avoid["truncated_packet"]
		// the packet a switch reports is the expectation for a decode: it carries the header length the wire shows
		g.Avoid["ipv4_ihl_default"] = true
		pk := g.Ethernet(maxp)
		delete(g.Avoid, "ipv4_ihl_default")
		g.TruncatedPackets = false
		p.Data = *pk.Eth
		sm.Pkt = &pk
		n := spec.N("msg.packet_in", spec.U("xid", x), spec.U("buffer_id", uint64(p.BufferId)), spec.U("total_len", uint64(p.TotalLen)), spec.U("reason", uint64(p.Reason)),
			spec.U("table_id", uint64(p.TableId)), spec.U("cookie", p.Cookie))
		n.Add(mn)
		if g.CutPackets == 2 || (g.CutPackets == 1 && g.Chance("packet_cut_by_switch", 1, 6)) {
			at := 0
			switch g.Pick("cut_where", 6) {
			case 0: // nothing at all: the packet is buffered, max_len 0
			case 1: // inside the Ethernet header or right behind it
				at = g.Int("cut_at_l2", 1, min(18, len(pk.Wire)-1))
			case 2, 3: // inside the network or transport header
				at = g.Int("cut_at_l3l4", min(14, len(pk.Wire)-1), min(86, len(pk.Wire)-1))
			default:
				at = g.Int("cut_at", 1, len(pk.Wire)-1)
			}
			sm.CutAt = at
			sm.Cut = true
			n.With(spec.B("data", pk.Wire[:at]))
			g.Label("packet_in_data_cut_by_switch")
		} else {
			n.With(spec.B("data", pk.Wire))
		}
		p.Header.Length = uint16(len(spec.Encode(n)))
		sm.Lib, sm.Tree = p, n
	case "flow_removed":
		f := of.NewFlowRemoved()
		f.Header.Type = of.Type_FlowRemoved
		x := g.xid(&f.Header)
		f.Cookie, f.Priority, f.Reason, f.TableId = g.U64("cookie"), g.U16("priority"), g.U8("reason"), g.U8("table_id")
		f.DurationSec, f.DurationNSec, f.IdleTimeout, f.HardTimeout = g.U32("dsec"), g.U32("dnsec"), g.U16("idle"), g.U16("hard")
		f.PacketCount, f.ByteCount = g.U64("packets"), g.U64("bytes")
		m, mn := g.Match(12)
		f.Match = *m
		n := spec.N("msg.flow_removed", spec.U("xid", x), spec.U("cookie", f.Cookie), spec.U("priority", uint64(f.Priority)), spec.U("reason", uint64(f.Reason)),
			spec.U("table_id", uint64(f.TableId)), spec.U("duration_sec", uint64(f.DurationSec)), spec.U("duration_nsec", uint64(f.DurationNSec)),
			spec.U("idle_timeout", uint64(f.IdleTimeout)), spec.U("hard_timeout", uint64(f.HardTimeout)), spec.U("packet_count", f.PacketCount), spec.U("byte_count", f.ByteCount))
		n.Add(mn)
		f.Header.Length = uint16(len(spec.Encode(n)))
		sm.Lib, sm.Tree = f, n
	case "port_status":
		p := of.NewPortStatus()
		p.Header.Type = of.Type_PortStatus
		x := g.xid(&p.Header)
		p.Reason = g.U8("reason")
		port, pn := g.portDual()
		p.Desc = *port
		sm.Lib = p
		sm.Tree = spec.N("msg.port_status", spec.U("xid", x), spec.U("reason", uint64(p.Reason))).Add(pn)
	case "nx_tlv_table_reply":
		r := &of.TLVTableReply{MaxSpace: g.U32("max_space"), MaxFields: g.U16("max_fields")}
		n := spec.N("msg.nx.tlv_table_reply", spec.U("xid", 0), spec.U("max_option_space", uint64(r.MaxSpace)), spec.U("max_fields", uint64(r.MaxFields)))
		k := g.ListLen("nmaps", 40)
		if k > (g.Budget-64)/8 {
			k = (g.Budget - 64) / 8
		}
		for i := 0; i < k; i++ {
			l := fmt.Sprintf("map%d_", i)
			tm := &of.TLVTableMap{OptClass: g.U16(l + "class"), OptType: g.U8(l + "type"), OptLength: g.U8(l + "len"), Index: g.U16(l + "index")}
			r.TlvMaps = append(r.TlvMaps, tm)
			n.Add(spec.N("tlv_map", spec.U("option_class", uint64(tm.OptClass)), spec.U("option_type", uint64(tm.OptType)), spec.U("option_len", uint64(tm.OptLength)), spec.U("index", uint64(tm.Index))))
		}
		m := of.NewNXTVendorHeader(of.Type_TlvTableReply)
		m.VendorData = r
		n.Set("xid", g.xid(&m.Header))
		sm.Lib, sm.Tree = m, n
	case "bundle_ctrl_reply":
		bc := &of.BundleControl{BundleID: g.U32("bundle_id"), Type: uint16(2*g.Pick("type", 4) + 1), Flags: g.U16("flags")}
		m := of.NewBundleControl(bc)
		x := g.xid(&m.Header)
		sm.Lib = m
		sm.Tree = spec.N("msg.onf.bundle_ctrl", spec.U("xid", x), spec.U("bundle_id", uint64(bc.BundleID)), spec.U("type", uint64(bc.Type)), spec.U("flags", uint64(bc.Flags)))
	default:
		g.mpReply(&sm)
	}
	return sm
}

func be64v(b []byte) uint64 {
	var v uint64
	for _, x := range b {
		v = v<<8 | uint64(x)
	}
	return v
}

func (g *G) mpReply(sm *SwitchMsg) {
	h := of.NewOfp13Header()
	h.Type = of.Type_MultiPartReply
	m := &of.MultipartReply{Header: h}
	x := g.xid(&m.Header)
	m.Flags = g.U16("flags")
	n := spec.N("msg.multipart_reply", spec.U("xid", x), spec.U("mp_type", 0), spec.U("flags", uint64(m.Flags)))
	g.Budget -= 16
	nrec := func(size int) int {
		k := g.ListLen("nrecords", 40)
		if k > (g.Budget-64)/size {
			k = (g.Budget - 64) / size
		}
		if k < 0 {
			k = 0
		}
		return k
	}
	switch sm.Kind {
	case "mp_reply_desc":
		m.Type = of.MultipartType_Desc
		for i, k := 0, min(nrec(1056), 1+g.Pick("desc_extra", 2)); i < k; i++ {
			d := of.NewDescStats()
			fill := func(dst []byte, l string) []byte {
				b := g.Bytes(l, len(dst))
				copy(dst, b)
				return b
			}
			n.Add(spec.N("mprep.desc", spec.B("mfr_desc", fill(d.MfrDesc, "mfr")), spec.B("hw_desc", fill(d.HWDesc, "hw")), spec.B("sw_desc", fill(d.SWDesc, "sw")),
				spec.B("serial_num", fill(d.SerialNum, "serial")), spec.B("dp_desc", fill(d.DPDesc, "dp"))))
			m.Body = append(m.Body, d)
		}
	case "mp_reply_flow":
		m.Type = of.MultipartType_Flow
		k := g.ListLen("nrecords", 40)
		for i := 0; i < k; i++ {
			if g.Budget < 400 && (i >= 1 || g.Budget < 100) { // a small budget still allows one record
				break
			}
			f := of.NewFlowStats()
			f.TableId, f.DurationSec, f.DurationNSec, f.Priority = g.U8("table_id"), g.U32("dsec"), g.U32("dnsec"), g.U16("priority")
			f.IdleTimeout, f.HardTimeout, f.Flags, f.Cookie = g.U16("idle"), g.U16("hard"), g.U16("fflags"), g.U64("cookie")
			f.PacketCount, f.ByteCount = g.U64("packets"), g.U64("bytes")
			g.Budget -= 56
			mt, mn := g.Match(10)
			f.Match = *mt
			r := spec.N("mprep.flow", spec.U("table_id", uint64(f.TableId)), spec.U("duration_sec", uint64(f.DurationSec)), spec.U("duration_nsec", uint64(f.DurationNSec)),
				spec.U("priority", uint64(f.Priority)), spec.U("idle_timeout", uint64(f.IdleTimeout)), spec.U("hard_timeout", uint64(f.HardTimeout)),
				spec.U("flags", uint64(f.Flags)), spec.U("cookie", f.Cookie), spec.U("packet_count", f.PacketCount), spec.U("byte_count", f.ByteCount))
			r.Add(mn)
			ni := g.ListLen("ninstr", 6)
			for j := 0; j < ni; j++ {
				if g.Budget < 200 && (j >= 2 || g.Budget < 40) {
					break
				}
				in, inn, name := g.Instr()
				g.Budget -= 24
				f.Instructions = append(f.Instructions, in)
				r.Add(inn)
				g.Label("instr=" + name)
			}
			rec := spec.N("msg.multipart_reply", spec.U("mp_type", 1)).Add(r)
			f.Length = uint16(len(spec.Encode(rec)) - 16) // a caller maintains the record length (Appendix B.2)
			m.Body = append(m.Body, f)
			n.Add(r)
		}
	case "mp_reply_aggregate":
		m.Type = of.MultipartType_Aggregate
		for i, k := 0, min(nrec(24), 1+g.Pick("agg_extra", 2)); i < k; i++ {
			a := of.NewAggregateStats()
			a.PacketCount, a.ByteCount, a.FlowCount = g.U64("packets"), g.U64("bytes"), g.U32("flows")
			m.Body = append(m.Body, a)
			n.Add(spec.N("mprep.aggregate", spec.U("packet_count", a.PacketCount), spec.U("byte_count", a.ByteCount), spec.U("flow_count", uint64(a.FlowCount))))
		}
	case "mp_reply_table":
		m.Type = of.MultipartType_Table
		for i, k := 0, nrec(64); i < k; i++ {
			t := of.NewTableStats()
			t.TableId, t.ActiveCount, t.LookupCount, t.MatchedCount = g.U8("table_id"), g.U32("active"), g.U64("lookups"), g.U64("matched")
			m.Body = append(m.Body, t)
			n.Add(spec.N("mprep.table", spec.U("table_id", uint64(t.TableId)), spec.U("active_count", uint64(t.ActiveCount)), spec.U("lookup_count", t.LookupCount), spec.U("matched_count", t.MatchedCount)))
		}
	case "mp_reply_port":
		m.Type = of.MultipartType_Port
		for i, k := 0, nrec(112); i < k; i++ {
			p := of.NewPortStats()
			p.PortNo = g.U16("port_no")
			vals := []*uint64{&p.RxPackets, &p.TxPackets, &p.RxBytes, &p.TxBytes, &p.RxDropped, &p.TxDropped, &p.RxErrors, &p.TxErrors, &p.RxFrameErr, &p.RxOverErr, &p.RxCRCErr, &p.Collisions}
			r := spec.N("mprep.port", spec.U("port_no", uint64(p.PortNo)))
			names := []string{"rx_packets", "tx_packets", "rx_bytes", "tx_bytes", "rx_dropped", "tx_dropped", "rx_errors", "tx_errors", "rx_frame_err", "rx_over_err", "rx_crc_err", "collisions"}
			for j, v := range vals {
				*v = g.U64(names[j])
				r.With(spec.U(names[j], *v))
			}
			// the library's record has no duration fields (OF1.0 layout): a conforming switch sends them
			r.With(spec.U("duration_sec", uint64(g.U32("dsec"))), spec.U("duration_nsec", uint64(g.U32("dnsec"))))
			m.Body = append(m.Body, p)
			n.Add(r)
		}
	case "mp_reply_queue":
		m.Type = of.MultipartType_Queue
		for i, k := 0, nrec(40); i < k; i++ {
			q := &of.QueueStats{}
			q.PortNo, q.QueueId, q.TxBytes, q.TxPackets, q.TxErrors = g.U16("port_no"), g.U32("queue_id"), g.U64("tx_bytes"), g.U64("tx_packets"), g.U64("tx_errors")
			m.Body = append(m.Body, q)
			n.Add(spec.N("mprep.queue", spec.U("port_no", uint64(q.PortNo)), spec.U("queue_id", uint64(q.QueueId)), spec.U("tx_bytes", q.TxBytes), spec.U("tx_packets", q.TxPackets),
				spec.U("tx_errors", q.TxErrors), spec.U("duration_sec", uint64(g.U32("dsec"))), spec.U("duration_nsec", uint64(g.U32("dnsec")))))
		}
	default:
		panic("gen: unknown switch kind " + sm.Kind)
	}
	n.Set("mp_type", uint64(m.Type))
	g.Label(fmt.Sprintf("mp_reply=%d records=%d", m.Type, bucketCount(len(m.Body))))
	sm.Lib, sm.Tree = m, n
}

func bucketCount(n int) int {
	switch {
	case n <= 2:
		return n
	case n <= 6:
		return 3
	case n <= 20:
		return 7
	}
	return 21
}
