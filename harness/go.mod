module verifharness

go 1.23

toolchain go1.23.5

require (
	github.com/contiv/libOpenflow v0.0.0
	github.com/sirupsen/logrus v1.9.0
	pgregory.net/rapid v1.3.0
)

require (
	golang.org/x/exp v0.0.0-20230420155350-5d9e357047b1 // indirect
	golang.org/x/sys v0.1.0 // indirect
)

replace github.com/contiv/libOpenflow => /repo
