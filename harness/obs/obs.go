// Package obs is the reflective observer (DESIGN.md 4.2): a deep dump over all
// fields, exported or not ("did anything at all change": C12, C13, C14) and an
// observable dump restricted to exported fields with a closed list of
// normalisations ("are these two values the same": C05, C09).
package obs

import (
	"bytes"
	"fmt"
	"net"
	"reflect"
	"sort"
	"strings"
)

type Opts struct {
	// ExportedOnly restricts the dump to exported fields.
	ExportedOnly bool
	// Normalise applies the closed normalisation list: nil == empty slice, net.IP
	// compared in 16-byte form, values behind an Encoder hook compared by encoding.
	Normalise bool
	// EncodeHook lets the caller replace the dump of a value by something else
	// (e.g. the encoding of a match-field payload). Return ok=false to decline.
	EncodeHook func(v reflect.Value) (string, bool)
	// SkipFields: "Type.Field" names to leave out.
	SkipFields map[string]bool
}

var (
	tIP     = reflect.TypeOf(net.IP{})
	tHW     = reflect.TypeOf(net.HardwareAddr{})
	tBuffer = reflect.TypeOf(bytes.Buffer{})
)

// Dump renders v.
func Dump(v any, o Opts) string {
	var sb strings.Builder
	dump(&sb, reflect.ValueOf(v), o, 0, map[uintptr]bool{})
	return sb.String()
}

// Deep is the all-fields dump without normalisation.
func Deep(v any) string { return Dump(v, Opts{}) }

func dump(sb *strings.Builder, v reflect.Value, o Opts, depth int, seen map[uintptr]bool) {
	if depth > 40 {
		sb.WriteString("<depth>")
		return
	}
	if !v.IsValid() {
		sb.WriteString("<invalid>")
		return
	}
	if o.EncodeHook != nil {
		if s, ok := o.EncodeHook(v); ok {
			sb.WriteString(s)
			return
		}
	}
	t := v.Type()
	switch t {
	case tIP:
		b := v.Bytes()
		if o.Normalise {
			if ip := net.IP(b).To16(); ip != nil {
				fmt.Fprintf(sb, "ip:%x", []byte(ip))
				return
			}
		}
		fmt.Fprintf(sb, "ip:%x/%d", b, len(b))
		return
	case tHW:
		fmt.Fprintf(sb, "hw:%x", v.Bytes())
		return
	case tBuffer:
		// content of a bytes.Buffer = its unread bytes
		if v.CanAddr() {
			// read buf[off:] through the unexported fields
			buf := v.FieldByName("buf")
			off := v.FieldByName("off")
			b := buf.Bytes()
			i := int(off.Int())
			if i > len(b) {
				i = len(b)
			}
			fmt.Fprintf(sb, "buffer:%x", b[i:])
			return
		}
		buf := v.FieldByName("buf").Bytes()
		i := int(v.FieldByName("off").Int())
		if i > len(buf) {
			i = len(buf)
		}
		fmt.Fprintf(sb, "buffer:%x", buf[i:])
		return
	}
	switch v.Kind() {
	case reflect.Ptr:
		if v.IsNil() {
			sb.WriteString("nil")
			return
		}
		p := v.Pointer()
		if seen[p] && v.Elem().Kind() == reflect.Struct {
			// shared pointers are dumped each time; only true cycles are cut
			if depth > 20 {
				sb.WriteString("<cycle>")
				return
			}
		}
		seen[p] = true
		sb.WriteString("&")
		dump(sb, v.Elem(), o, depth+1, seen)
	case reflect.Interface:
		if v.IsNil() {
			sb.WriteString("nil")
			return
		}
		e := v.Elem()
		fmt.Fprintf(sb, "(%s)", e.Type().String())
		dump(sb, e, o, depth+1, seen)
	case reflect.Struct:
		sb.WriteString(t.Name())
		sb.WriteString("{")
		first := true
		for i := 0; i < t.NumField(); i++ {
			f := t.Field(i)
			if o.ExportedOnly && f.PkgPath != "" {
				continue
			}
			if o.SkipFields != nil && o.SkipFields[t.Name()+"."+f.Name] {
				continue
			}
			if !first {
				sb.WriteString(" ")
			}
			first = false
			sb.WriteString(f.Name)
			sb.WriteString(":")
			dump(sb, v.Field(i), o, depth+1, seen)
		}
		sb.WriteString("}")
	case reflect.Slice:
		if v.IsNil() {
			if o.Normalise {
				sb.WriteString("[]")
			} else {
				sb.WriteString("nil[]")
			}
			return
		}
		if t.Elem().Kind() == reflect.Uint8 {
			fmt.Fprintf(sb, "x:%x", v.Bytes())
			return
		}
		sb.WriteString("[")
		for i := 0; i < v.Len(); i++ {
			if i > 0 {
				sb.WriteString(" ")
			}
			dump(sb, v.Index(i), o, depth+1, seen)
		}
		sb.WriteString("]")
	case reflect.Array:
		if t.Elem().Kind() == reflect.Uint8 {
			sb.WriteString("a:")
			for i := 0; i < v.Len(); i++ {
				fmt.Fprintf(sb, "%02x", v.Index(i).Uint())
			}
			return
		}
		sb.WriteString("[")
		for i := 0; i < v.Len(); i++ {
			if i > 0 {
				sb.WriteString(" ")
			}
			dump(sb, v.Index(i), o, depth+1, seen)
		}
		sb.WriteString("]")
	case reflect.Map:
		keys := v.MapKeys()
		strs := make([]string, 0, len(keys))
		for _, k := range keys {
			var kb, vb strings.Builder
			dump(&kb, k, o, depth+1, seen)
			dump(&vb, v.MapIndex(k), o, depth+1, seen)
			strs = append(strs, kb.String()+"=>"+vb.String())
		}
		sort.Strings(strs)
		sb.WriteString("map[" + strings.Join(strs, " ") + "]")
	case reflect.Bool:
		fmt.Fprintf(sb, "%v", v.Bool())
	case reflect.Int, reflect.Int8, reflect.Int16, reflect.Int32, reflect.Int64:
		fmt.Fprintf(sb, "%d", v.Int())
	case reflect.Uint, reflect.Uint8, reflect.Uint16, reflect.Uint32, reflect.Uint64, reflect.Uintptr:
		fmt.Fprintf(sb, "%d", v.Uint())
	case reflect.String:
		fmt.Fprintf(sb, "%q", v.String())
	case reflect.Float32, reflect.Float64:
		fmt.Fprintf(sb, "%v", v.Float())
	case reflect.Func, reflect.Chan, reflect.UnsafePointer:
		sb.WriteString("<" + v.Kind().String() + ">")
	default:
		sb.WriteString("<?" + v.Kind().String() + ">")
	}
}

// FirstDiff returns a short description of where two dumps start to differ.
func FirstDiff(a, b string) string {
	n := len(a)
	if len(b) < n {
		n = len(b)
	}
	i := 0
	for i < n && a[i] == b[i] {
		i++
	}
	if i == len(a) && i == len(b) {
		return ""
	}
	lo := i - 60
	if lo < 0 {
		lo = 0
	}
	ha, hb := i+60, i+60
	if ha > len(a) {
		ha = len(a)
	}
	if hb > len(b) {
		hb = len(b)
	}
	return fmt.Sprintf("at %d: ...%s<<<%s>>> vs <<<%s>>>", i, a[lo:i], a[i:ha], b[i:hb])
}
