package spec

import (
	"encoding/binary"
	"fmt"
	"strings"
)

// Err is a decoding failure: where (a path of kinds, without indices, usable
// in signatures), what (closed vocabulary) and a human-readable detail.
type Err struct {
	Path   string
	Sym    string // len-mismatch | unaligned | nonzero-pad | bad-type | bad-version | short | trailing | bad-value
	Detail string
}

func (e *Err) Error() string { return fmt.Sprintf("%s: %s: %s", e.Path, e.Sym, e.Detail) }

// Slot is the position of a structural field (length, count, type, subtype) in
// the decoded bytes; the hostile generators of C07 override them.
type Slot struct {
	Off   int
	Width int
	Class string // len | type | count | subtype | vendor | bitmap
	Path  string
}

type dec struct {
	path  []string
	slots []Slot
}

type decPanic struct{ e *Err }

func (d *dec) fail(sym, format string, a ...any) {
	panic(decPanic{&Err{Path: strings.Join(d.path, "/"), Sym: sym, Detail: fmt.Sprintf(format, a...)}})
}

func (d *dec) push(k string) { d.path = append(d.path, k) }
func (d *dec) pop()          { d.path = d.path[:len(d.path)-1] }

func (d *dec) slot(off, w int, class string) {
	d.slots = append(d.slots, Slot{Off: off, Width: w, Class: class, Path: strings.Join(d.path, "/")})
}

func (d *dec) need(b []byte, n int, what string) {
	if len(b) < n {
		d.fail("short", "%s needs %d bytes, %d available", what, n, len(b))
	}
}

func (d *dec) zero(b []byte, what string) {
	for i, x := range b {
		if x != 0 {
			d.fail("nonzero-pad", "%s: byte %d of padding is %#x (pad=%x)", what, i, x, b)
		}
	}
}

func be16(b []byte) uint64 { return uint64(binary.BigEndian.Uint16(b)) }
func be32(b []byte) uint64 { return uint64(binary.BigEndian.Uint32(b)) }
func be64(b []byte) uint64 { return binary.BigEndian.Uint64(b) }

// Decode parses one complete OpenFlow 1.3 message strictly: it advances only
// by declared lengths and rejects any element whose declared length differs
// from the bytes it occupies, that is not aligned as the format requires, that
// leaves non-zero padding or that carries a code outside the tables.
func Decode(b []byte) (n *Node, slots []Slot, err error) {
	d := &dec{}
	defer func() {
		if r := recover(); r != nil {
			if p, ok := r.(decPanic); ok {
				n, slots, err = nil, d.slots, p.e
				return
			}
			panic(r)
		}
	}()
	n = d.message(b, 0, true)
	return n, d.slots, nil
}

// DecodeAction / DecodeInstr / DecodeOXM / DecodeMatch / DecodeBucket decode a
// stand-alone element that must fill b exactly.
func DecodeElement(kind string, b []byte) (n *Node, err error) {
	d := &dec{}
	defer func() {
		if r := recover(); r != nil {
			if p, ok := r.(decPanic); ok {
				n, err = nil, p.e
				return
			}
			panic(r)
		}
	}()
	var used int
	switch kind {
	case "action":
		n, used = d.action(b, 0)
	case "instr":
		n, used = d.instr(b, 0)
	case "oxm":
		n, used = d.oxm(b, 0)
	case "match":
		n, used = d.match(b, 0)
	case "bucket":
		n, used = d.bucket(b, 0)
	default:
		panic("spec: unknown element kind " + kind)
	}
	if used != len(b) {
		d.fail("trailing", "%s occupies %d of %d bytes", kind, used, len(b))
	}
	return n, nil
}

func (d *dec) message(b []byte, base int, top bool) *Node {
	d.push("msg")
	d.need(b, 8, "ofp_header")
	typ := int(b[1])
	if b[0] != OFVersion && !(typ == 0 && b[0] > OFVersion) {
		// (a hello carries the highest version its sender supports, which may be above 1.3)
		d.fail("bad-version", "version byte %d, want 4", b[0])
	}
	length := int(be16(b[2:]))
	d.slot(base+1, 1, "type")
	d.slot(base+2, 2, "len")
	if length < 8 {
		d.fail("len-mismatch", "header length %d < 8", length)
	}
	if top && length != len(b) {
		d.fail("len-mismatch", "header length %d, message is %d bytes", length, len(b))
	}
	if length > len(b) {
		d.fail("len-mismatch", "header length %d exceeds the %d bytes available", length, len(b))
	}
	b = b[:length]
	xid := be32(b[4:])
	body := b[8:]
	bb := base + 8
	d.pop()
	var n *Node
	fixed := func(kind string, size int) {
		d.push(kind)
		if len(body) != size {
			d.fail("len-mismatch", "%s body is %d bytes, want %d", kind, len(body), size)
		}
	}
	switch typ {
	case THello:
		d.push("msg.hello")
		n = N("msg.hello", U("xid", xid))
		if b[0] != OFVersion {
			n.With(U("version", uint64(b[0])))
		}
		off := 0
		for off < len(body) {
			d.push("hello_elem")
			d.need(body[off:], 4, "hello element header")
			et, el := be16(body[off:]), int(be16(body[off+2:]))
			d.slot(bb+off, 2, "type")
			d.slot(bb+off+2, 2, "len")
			if el < 4 {
				d.fail("len-mismatch", "hello element length %d < 4", el)
			}
			padded := (el + 7) / 8 * 8
			if off+padded > len(body) {
				d.fail("len-mismatch", "hello element length %d (+pad=%d) exceeds the remaining %d bytes", el, padded, len(body)-off)
			}
			d.zero(body[off+el:off+padded], "hello element pad")
			if et == 1 {
				if (el-4)%4 != 0 {
					d.fail("len-mismatch", "version bitmap element length %d is not 4+4k", el)
				}
				n.Add(N("hello.versionbitmap", B("bitmaps", body[off+4:off+el])))
			} else {
				n.Add(N("hello.unknown", U("type", et), B("data", body[off+4:off+el])))
			}
			off += padded
			d.pop()
		}
	case TError:
		d.push("msg.error")
		d.need(body, 4, "ofp_error_msg")
		et := be16(body)
		if et == 0xffff {
			d.pop()
			d.push("msg.error_exp")
			d.need(body, 8, "ofp_error_experimenter_msg")
			n = N("msg.error_exp", U("xid", xid), U("exp_type", be16(body[2:])), U("experimenter", be32(body[4:])), B("data", body[8:]))
		} else {
			n = N("msg.error", U("xid", xid), U("type", et), U("code", be16(body[2:])), B("data", body[4:]))
		}
	case TEchoRequest:
		d.push("msg.echo_request")
		n = N("msg.echo_request", U("xid", xid), B("data", body))
	case TEchoReply:
		d.push("msg.echo_reply")
		n = N("msg.echo_reply", U("xid", xid), B("data", body))
	case TExperimenter:
		n = d.experimenter(xid, body, bb)
		d.push(n.Kind)
	case TFeaturesReq:
		fixed("msg.features_request", 0)
		n = N("msg.features_request", U("xid", xid))
	case TGetConfigReq:
		fixed("msg.get_config_request", 0)
		n = N("msg.get_config_request", U("xid", xid))
	case TBarrierReq:
		fixed("msg.barrier_request", 0)
		n = N("msg.barrier_request", U("xid", xid))
	case TBarrierReply:
		fixed("msg.barrier_reply", 0)
		n = N("msg.barrier_reply", U("xid", xid))
	case TFeaturesReply:
		fixed("msg.features_reply", 24)
		d.zero(body[14:16], "features reply pad")
		n = N("msg.features_reply", U("xid", xid), U("datapath_id", be64(body)), U("n_buffers", be32(body[8:])),
			U("n_tables", uint64(body[12])), U("auxiliary_id", uint64(body[13])), U("capabilities", be32(body[16:])), U("reserved", be32(body[20:])))
	case TGetConfigReply, TSetConfig:
		k := "msg.get_config_reply"
		if typ == TSetConfig {
			k = "msg.set_config"
		}
		fixed(k, 4)
		n = N(k, U("xid", xid), U("flags", be16(body)), U("miss_send_len", be16(body[2:])))
	case TPacketIn:
		d.push("msg.packet_in")
		d.need(body, 16+8+2, "ofp_packet_in")
		n = N("msg.packet_in", U("xid", xid), U("buffer_id", be32(body)), U("total_len", be16(body[4:])), U("reason", uint64(body[6])),
			U("table_id", uint64(body[7])), U("cookie", be64(body[8:])))
		m, used := d.match(body[16:], bb+16)
		n.Add(m)
		rest := body[16+used:]
		d.need(rest, 2, "packet-in pad")
		d.zero(rest[:2], "packet-in pad")
		n.With(B("data", rest[2:]))
	case TFlowRemoved:
		d.push("msg.flow_removed")
		d.need(body, 40+8, "ofp_flow_removed")
		n = N("msg.flow_removed", U("xid", xid), U("cookie", be64(body)), U("priority", be16(body[8:])), U("reason", uint64(body[10])),
			U("table_id", uint64(body[11])), U("duration_sec", be32(body[12:])), U("duration_nsec", be32(body[16:])),
			U("idle_timeout", be16(body[20:])), U("hard_timeout", be16(body[22:])), U("packet_count", be64(body[24:])), U("byte_count", be64(body[32:])))
		m, used := d.match(body[40:], bb+40)
		n.Add(m)
		if 40+used != len(body) {
			d.fail("trailing", "flow-removed: %d bytes after the match", len(body)-40-used)
		}
	case TPortStatus:
		fixed("msg.port_status", 72)
		d.zero(body[1:8], "port-status pad")
		n = N("msg.port_status", U("xid", xid), U("reason", uint64(body[0])))
		n.Add(d.port(body[8:]))
	case TPacketOut:
		d.push("msg.packet_out")
		d.need(body, 16, "ofp_packet_out")
		alen := int(be16(body[8:]))
		d.slot(bb+8, 2, "len")
		d.zero(body[10:16], "packet-out pad")
		n = N("msg.packet_out", U("xid", xid), U("buffer_id", be32(body)), U("in_port", be32(body[4:])))
		if 16+alen > len(body) {
			d.fail("len-mismatch", "actions_len %d exceeds the %d bytes after the fixed part", alen, len(body)-16)
		}
		n.Kids = d.actions(body[16:16+alen], bb+16)
		n.With(B("data", body[16+alen:]))
	case TFlowMod:
		d.push("msg.flow_mod")
		d.need(body, 40+8, "ofp_flow_mod")
		d.zero(body[38:40], "flow-mod pad")
		n = N("msg.flow_mod", U("xid", xid), U("cookie", be64(body)), U("cookie_mask", be64(body[8:])), U("table_id", uint64(body[16])),
			U("command", uint64(body[17])), U("idle_timeout", be16(body[18:])), U("hard_timeout", be16(body[20:])), U("priority", be16(body[22:])),
			U("buffer_id", be32(body[24:])), U("out_port", be32(body[28:])), U("out_group", be32(body[32:])), U("flags", be16(body[36:])))
		if body[17] > 4 {
			d.fail("bad-type", "flow-mod command %d is not defined", body[17])
		}
		m, used := d.match(body[40:], bb+40)
		n.Add(m)
		n.Add(d.instrs(body[40+used:], bb+40+used)...)
	case TGroupMod:
		d.push("msg.group_mod")
		d.need(body, 8, "ofp_group_mod")
		d.zero(body[3:4], "group-mod pad")
		n = N("msg.group_mod", U("xid", xid), U("command", be16(body)), U("type", uint64(body[2])), U("group_id", be32(body[4:])))
		if be16(body) > 2 {
			d.fail("bad-type", "group-mod command %d is not defined", be16(body))
		}
		off := 8
		for off < len(body) {
			bk, used := d.bucket(body[off:], bb+off)
			n.Add(bk)
			off += used
		}
	case TPortMod:
		fixed("msg.port_mod", 32)
		d.zero(body[4:8], "port-mod pad")
		d.zero(body[14:16], "port-mod pad2")
		d.zero(body[28:32], "port-mod pad3")
		n = N("msg.port_mod", U("xid", xid), U("port_no", be32(body)), B("hw_addr", body[8:14]), U("config", be32(body[16:])),
			U("mask", be32(body[20:])), U("advertise", be32(body[24:])))
	case TMultipartReq:
		n = d.mpRequest(xid, body, bb)
	case TMultipartReply:
		n = d.mpReply(xid, body, bb)
	default:
		d.push("msg")
		d.fail("bad-type", "ofp_type %d is not modelled", typ)
	}
	d.pop()
	return n
}

func (d *dec) port(b []byte) *Node {
	d.push("port")
	defer d.pop()
	d.need(b, 64, "ofp_port")
	if len(b) != 64 {
		d.fail("len-mismatch", "ofp_port is %d bytes, want 64", len(b))
	}
	d.zero(b[4:8], "ofp_port pad")
	d.zero(b[14:16], "ofp_port pad2")
	return N("port", U("port_no", be32(b)), B("hw_addr", b[8:14]), B("name", b[16:32]), U("config", be32(b[32:])), U("state", be32(b[36:])),
		U("curr", be32(b[40:])), U("advertised", be32(b[44:])), U("supported", be32(b[48:])), U("peer", be32(b[52:])),
		U("curr_speed", be32(b[56:])), U("max_speed", be32(b[60:])))
}

func (d *dec) experimenter(xid uint64, body []byte, bb int) *Node {
	d.push("msg.experimenter")
	d.need(body, 8, "ofp_experimenter_header")
	vendor, et := be32(body), be32(body[4:])
	d.slot(bb, 4, "vendor")
	d.slot(bb+4, 4, "subtype")
	p := body[8:]
	pb := bb + 8
	d.pop()
	tlvMaps := func(n *Node, b []byte) {
		if len(b)%8 != 0 {
			d.fail("len-mismatch", "%d bytes of nx_tlv_map entries is not a multiple of 8", len(b))
		}
		for off := 0; off < len(b); off += 8 {
			d.zero(b[off+6:off+8], "nx_tlv_map pad")
			n.Add(N("tlv_map", U("option_class", be16(b[off:])), U("option_type", uint64(b[off+2])), U("option_len", uint64(b[off+3])), U("index", be16(b[off+4:]))))
		}
	}
	switch {
	case vendor == NiciraVendor && et == NXTSetControllerID:
		d.push("msg.nx.set_controller_id")
		defer d.pop()
		if len(p) != 8 {
			d.fail("len-mismatch", "nx_controller_id body is %d bytes, want 8", len(p))
		}
		d.zero(p[:6], "nx_controller_id zero")
		return N("msg.nx.set_controller_id", U("xid", xid), U("controller_id", be16(p[6:])))
	case vendor == NiciraVendor && et == NXTTlvTableMod:
		d.push("msg.nx.tlv_table_mod")
		defer d.pop()
		d.need(p, 8, "nx_tlv_table_mod")
		d.zero(p[2:8], "nx_tlv_table_mod pad")
		n := N("msg.nx.tlv_table_mod", U("xid", xid), U("command", be16(p)))
		tlvMaps(n, p[8:])
		return n
	case vendor == NiciraVendor && et == NXTTlvTableRequest:
		d.push("msg.nx.tlv_table_request")
		defer d.pop()
		if len(p) != 0 {
			d.fail("len-mismatch", "tlv_table_request has a %d-byte body", len(p))
		}
		return N("msg.nx.tlv_table_request", U("xid", xid))
	case vendor == NiciraVendor && et == NXTTlvTableReply:
		d.push("msg.nx.tlv_table_reply")
		defer d.pop()
		d.need(p, 16, "nx_tlv_table_reply")
		d.zero(p[6:16], "nx_tlv_table_reply reserved")
		n := N("msg.nx.tlv_table_reply", U("xid", xid), U("max_option_space", be32(p)), U("max_fields", be16(p[4:])))
		tlvMaps(n, p[16:])
		return n
	case vendor == ONFVendor && et == ONFBundleCtrl:
		d.push("msg.onf.bundle_ctrl")
		defer d.pop()
		d.need(p, 8, "onf_bundle_ctrl")
		n := N("msg.onf.bundle_ctrl", U("xid", xid), U("bundle_id", be32(p)), U("type", be16(p[4:])), U("flags", be16(p[6:])))
		if be16(p[4:]) > 7 {
			d.fail("bad-type", "bundle control type %d is not defined", be16(p[4:]))
		}
		n.Add(d.bundleProps(p[8:], pb+8)...)
		return n
	case vendor == ONFVendor && et == ONFBundleAdd:
		d.push("msg.onf.bundle_add")
		defer d.pop()
		d.need(p, 8+8, "onf_bundle_add + embedded header")
		d.zero(p[4:6], "bundle-add pad")
		n := N("msg.onf.bundle_add", U("xid", xid), U("bundle_id", be32(p)), U("flags", be16(p[6:])))
		inner := d.message(p[8:], pb+8, false)
		n.Add(inner)
		il := int(be16(p[8+2:]))
		rest := p[8+il:]
		if len(rest) > 0 {
			// Properties follow the embedded message. ONF EXT-230 (= OF1.4 ofp_bundle_add_msg): "If there is
			// one property or more, 'message' is followed by exactly (message.length + 7)/8*8 -
			// (message.length) bytes of all-zero bytes".
			padded := (il+7)/8*8 - il
			if len(rest) < padded {
				d.fail("len-mismatch", "bundle-add: %d bytes follow the %d-byte message, its padding alone is %d", len(rest), il, padded)
			}
			d.zero(rest[:padded], "bundle-add message pad")
			if len(rest) == padded {
				// the padding exists for the properties' alignment only: without a property the message ends with
				// the embedded message (its length field says so to every receiver that checks it)
				d.fail("len-mismatch", "bundle-add: %d padding bytes follow the %d-byte message but no property does", padded, il)
			}
			props := d.bundleProps(rest[padded:], pb+8+il+padded)
			n.Add(props...)
		}
		return n
	}
	d.push("msg.experimenter")
	d.fail("bad-type", "experimenter %#x exp_type %d is not modelled", vendor, et)
	return nil
}

func (d *dec) tryProps(b []byte, base int) (props []*Node, err *Err) {
	saveSlots, savePath := len(d.slots), len(d.path)
	defer func() {
		if r := recover(); r != nil {
			if p, ok := r.(decPanic); ok {
				d.slots, d.path = d.slots[:saveSlots], d.path[:savePath]
				props, err = nil, p.e
				return
			}
			panic(r)
		}
	}()
	return d.bundleProps(b, base), nil
}

func (d *dec) bundleProps(b []byte, base int) []*Node {
	var out []*Node
	off := 0
	for off < len(b) {
		d.push("bundle_prop")
		d.need(b[off:], 4, "bundle property header")
		pt, pl := be16(b[off:]), int(be16(b[off+2:]))
		d.slot(base+off, 2, "type")
		d.slot(base+off+2, 2, "len")
		if pt != 0xffff {
			d.fail("bad-type", "bundle property type %#x (only EXPERIMENTER 0xffff is defined)", pt)
		}
		if pl < 12 || off+pl > len(b) {
			d.fail("len-mismatch", "bundle property length %d, %d bytes remain", pl, len(b)-off)
		}
		out = append(out, N("bundle_prop.experimenter", U("experimenter", be32(b[off+4:])), U("exp_type", be32(b[off+8:])), B("data", b[off+12:off+pl])))
		// ofp_bundle_prop_experimenter: the data is followed by exactly (length + 7)/8*8 - length zero bytes
		adv := (pl + 7) / 8 * 8
		if off+adv > len(b) {
			d.fail("unaligned", "bundle property of length %d is not padded to 8 bytes (%d bytes remain)", pl, len(b)-off)
		}
		d.zero(b[off+pl:off+adv], "bundle property pad")
		off += adv
		d.pop()
	}
	return out
}

func allZero(b []byte) bool {
	for _, x := range b {
		if x != 0 {
			return false
		}
	}
	return true
}

func (d *dec) mpRequest(xid uint64, body []byte, bb int) *Node {
	d.push("msg.multipart_request")
	d.need(body, 8, "ofp_multipart_request")
	mt := be16(body)
	d.slot(bb, 2, "type")
	d.zero(body[4:8], "multipart pad")
	n := N("msg.multipart_request", U("xid", xid), U("mp_type", mt), U("flags", be16(body[2:])))
	p := body[8:]
	switch mt {
	case MPDesc, MPTable:
		if len(p) != 0 {
			d.fail("len-mismatch", "multipart request type %d has a %d-byte body, want none", mt, len(p))
		}
	case MPFlow, MPAggregate:
		k := "mpreq.flow"
		if mt == MPAggregate {
			k = "mpreq.aggregate"
		}
		d.push(k)
		d.need(p, 32+8, "ofp_flow_stats_request")
		d.zero(p[1:4], "stats request pad")
		d.zero(p[12:16], "stats request pad2")
		r := N(k, U("table_id", uint64(p[0])), U("out_port", be32(p[4:])), U("out_group", be32(p[8:])), U("cookie", be64(p[16:])), U("cookie_mask", be64(p[24:])))
		m, used := d.match(p[32:], bb+8+32)
		r.Add(m)
		if 32+used != len(p) {
			d.fail("trailing", "%d bytes after the match of a stats request", len(p)-32-used)
		}
		n.Add(r)
		d.pop()
	case MPPort:
		d.push("mpreq.port")
		if len(p) != 8 {
			d.fail("len-mismatch", "ofp_port_stats_request is %d bytes, want 8", len(p))
		}
		d.zero(p[4:8], "port stats request pad")
		n.Add(N("mpreq.port", U("port_no", be32(p))))
		d.pop()
	case MPQueue:
		d.push("mpreq.queue")
		if len(p) != 8 {
			d.fail("len-mismatch", "ofp_queue_stats_request is %d bytes, want 8", len(p))
		}
		n.Add(N("mpreq.queue", U("port_no", be32(p)), U("queue_id", be32(p[4:]))))
		d.pop()
	case 6, 7, 8, 9, 10, 11, 12, 13, 0xffff:
		// types whose body the model keeps as bytes (group, meter, table features, port description, experimenter)
		if len(p) > 0 {
			n.Add(N("mpreq.raw", B("data", p)))
		}
	default:
		d.fail("bad-type", "multipart request type %d is not modelled", mt)
	}
	return n
}

func (d *dec) mpReply(xid uint64, body []byte, bb int) *Node {
	d.push("msg.multipart_reply")
	d.need(body, 8, "ofp_multipart_reply")
	mt := be16(body)
	d.slot(bb, 2, "type")
	d.zero(body[4:8], "multipart pad")
	n := N("msg.multipart_reply", U("xid", xid), U("mp_type", mt), U("flags", be16(body[2:])))
	p := body[8:]
	pb := bb + 8
	rec := func(kind string, size int, f func(r []byte) *Node) {
		d.push(kind)
		if len(p)%size != 0 {
			d.fail("len-mismatch", "%d bytes of %s records is not a multiple of %d", len(p), kind, size)
		}
		for off := 0; off < len(p); off += size {
			n.Add(f(p[off : off+size]))
		}
		d.pop()
	}
	switch mt {
	case MPDesc:
		rec("mprep.desc", 1056, func(r []byte) *Node {
			return N("mprep.desc", B("mfr_desc", r[:256]), B("hw_desc", r[256:512]), B("sw_desc", r[512:768]), B("serial_num", r[768:800]), B("dp_desc", r[800:1056]))
		})
	case MPFlow:
		off := 0
		for off < len(p) {
			d.push("mprep.flow")
			r := p[off:]
			d.need(r, 48+8, "ofp_flow_stats")
			l := int(be16(r))
			d.slot(pb+off, 2, "len")
			if l < 56 || l > len(r) {
				d.fail("len-mismatch", "ofp_flow_stats length %d, %d bytes remain", l, len(r))
			}
			r = r[:l]
			d.zero(r[3:4], "flow stats pad")
			d.zero(r[20:24], "flow stats pad2")
			fs := N("mprep.flow", U("table_id", uint64(r[2])), U("duration_sec", be32(r[4:])), U("duration_nsec", be32(r[8:])), U("priority", be16(r[12:])),
				U("idle_timeout", be16(r[14:])), U("hard_timeout", be16(r[16:])), U("flags", be16(r[18:])), U("cookie", be64(r[24:])),
				U("packet_count", be64(r[32:])), U("byte_count", be64(r[40:])))
			m, used := d.match(r[48:], pb+off+48)
			fs.Add(m)
			fs.Add(d.instrs(r[48+used:], pb+off+48+used)...)
			n.Add(fs)
			off += l
			d.pop()
		}
	case MPAggregate:
		rec("mprep.aggregate", 24, func(r []byte) *Node {
			d.zero(r[20:24], "aggregate pad")
			return N("mprep.aggregate", U("packet_count", be64(r)), U("byte_count", be64(r[8:])), U("flow_count", be32(r[16:])))
		})
	case MPTable:
		rec("mprep.table", 24, func(r []byte) *Node {
			d.zero(r[1:4], "table stats pad")
			return N("mprep.table", U("table_id", uint64(r[0])), U("active_count", be32(r[4:])), U("lookup_count", be64(r[8:])), U("matched_count", be64(r[16:])))
		})
	case MPPort:
		rec("mprep.port", 112, func(r []byte) *Node {
			d.zero(r[4:8], "port stats pad")
			x := N("mprep.port", U("port_no", be32(r)))
			for i, nm := range portCounters {
				x.With(U(nm, be64(r[8+8*i:])))
			}
			x.With(U("duration_sec", be32(r[104:])), U("duration_nsec", be32(r[108:])))
			return x
		})
	case MPQueue:
		rec("mprep.queue", 40, func(r []byte) *Node {
			return N("mprep.queue", U("port_no", be32(r)), U("queue_id", be32(r[4:])), U("tx_bytes", be64(r[8:])), U("tx_packets", be64(r[16:])),
				U("tx_errors", be64(r[24:])), U("duration_sec", be32(r[32:])), U("duration_nsec", be32(r[36:])))
		})
	default:
		d.fail("bad-type", "multipart reply type %d is not modelled", mt)
	}
	return n
}

var portCounters = []string{"rx_packets", "tx_packets", "rx_bytes", "tx_bytes", "rx_dropped", "tx_dropped", "rx_errors", "tx_errors",
	"rx_frame_err", "rx_over_err", "rx_crc_err", "collisions"}

// match: type 2 (=1) . length 2 (= 4 + TLVs, excluding padding) . TLVs . zero pad to 8.
func (d *dec) match(b []byte, base int) (*Node, int) {
	d.push("match")
	defer d.pop()
	d.need(b, 8, "ofp_match")
	mt, ml := be16(b), int(be16(b[2:]))
	d.slot(base, 2, "type")
	d.slot(base+2, 2, "len")
	if mt != 1 {
		d.fail("bad-type", "match type %d, want 1 (OXM)", mt)
	}
	if ml < 4 {
		d.fail("len-mismatch", "match length %d < 4", ml)
	}
	size := (ml + 7) / 8 * 8
	if size > len(b) {
		d.fail("len-mismatch", "match length %d (+pad = %d) exceeds the %d bytes available", ml, size, len(b))
	}
	n := N("match")
	off := 4
	for off < ml {
		o, used := d.oxm(b[off:ml], base+off)
		n.Add(o)
		off += used
	}
	d.zero(b[ml:size], "match pad")
	return n, size
}

// oxm TLV: class 2 . field<<1|hasmask 1 . length 1 . [experimenter 4] . value . [mask]
func (d *dec) oxm(b []byte, base int) (*Node, int) {
	d.push("oxm")
	defer d.pop()
	d.need(b, 4, "oxm header")
	class := uint16(be16(b))
	field := b[2] >> 1
	hm := b[2] & 1
	plen := int(b[3])
	d.slot(base, 2, "type")
	d.slot(base+2, 1, "type")
	d.slot(base+3, 1, "len")
	if 4+plen > len(b) {
		d.fail("len-mismatch", "oxm %#x/%d payload length %d exceeds the %d bytes available", class, field, plen, len(b)-4)
	}
	info, ok := LookupOXM(class, field)
	if !ok {
		d.fail("bad-type", "oxm class %#x field %d is not defined by OF1.3/NXM", class, field)
	}
	p := b[4 : 4+plen]
	n := N("oxm", U("class", uint64(class)), U("field", uint64(field)), U("hasmask", uint64(hm)))
	if class == ClassExp {
		d.need(p, 4, "oxm experimenter id")
		n.With(U("experimenter", be32(p)))
		if be32(p) != ONFVendor {
			d.fail("bad-type", "oxm experimenter %#x is not modelled", be32(p))
		}
		p = p[4:]
	}
	vl := len(p)
	if hm == 1 {
		if vl%2 != 0 {
			d.fail("len-mismatch", "masked oxm %s has odd payload length %d", info.Name, vl)
		}
		vl /= 2
	}
	if info.Variable {
		if vl < 1 || vl > info.Width {
			d.fail("len-mismatch", "oxm %s value length %d outside 1..%d", info.Name, vl, info.Width)
		}
	} else if vl != info.Width {
		d.fail("len-mismatch", "oxm %s (class %#x field %d hasmask %d) declares payload length %d, the field is %d bytes wide", info.Name, class, field, hm, plen, info.Width)
	}
	n.With(B("value", p[:vl]))
	if hm == 1 {
		n.With(B("mask", p[vl:]))
	} else {
		n.With(B("mask", nil))
	}
	return n, 4 + plen
}

func (d *dec) instrs(b []byte, base int) []*Node {
	var out []*Node
	off := 0
	for off < len(b) {
		n, used := d.instr(b[off:], base+off)
		out = append(out, n)
		off += used
	}
	return out
}

func (d *dec) instr(b []byte, base int) (*Node, int) {
	d.push("instr")
	d.need(b, 4, "instruction header")
	it, il := uint16(be16(b)), int(be16(b[2:]))
	d.slot(base, 2, "type")
	d.slot(base+2, 2, "len")
	kind, ok := instrKind[it]
	if !ok {
		d.fail("bad-type", "instruction type %d is not defined by OF1.3", it)
	}
	d.pop()
	d.push(kind)
	defer d.pop()
	if il < 8 || il%8 != 0 {
		d.fail("unaligned", "%s length %d is not a positive multiple of 8", kind, il)
	}
	if il > len(b) {
		d.fail("len-mismatch", "%s length %d exceeds the %d bytes available", kind, il, len(b))
	}
	b = b[:il]
	switch kind {
	case "instr.goto_table":
		if il != 8 {
			d.fail("len-mismatch", "goto_table length %d, want 8", il)
		}
		d.zero(b[5:8], "goto_table pad")
		return N(kind, U("table_id", uint64(b[4]))), il
	case "instr.write_metadata":
		if il != 24 {
			d.fail("len-mismatch", "write_metadata length %d, want 24", il)
		}
		d.zero(b[4:8], "write_metadata pad")
		return N(kind, U("metadata", be64(b[8:])), U("metadata_mask", be64(b[16:]))), il
	case "instr.meter":
		if il != 8 {
			d.fail("len-mismatch", "meter length %d, want 8", il)
		}
		return N(kind, U("meter_id", be32(b[4:]))), il
	default: // write/apply/clear actions
		d.zero(b[4:8], "instruction pad")
		n := N(kind)
		n.Kids = d.actions(b[8:], base+8)
		return n, il
	}
}

func (d *dec) actions(b []byte, base int) []*Node {
	var out []*Node
	off := 0
	for off < len(b) {
		n, used := d.action(b[off:], base+off)
		out = append(out, n)
		off += used
	}
	return out
}

func (d *dec) bucket(b []byte, base int) (*Node, int) {
	d.push("bucket")
	defer d.pop()
	d.need(b, 16, "ofp_bucket")
	l := int(be16(b))
	d.slot(base, 2, "len")
	if l < 16 || l%8 != 0 {
		d.fail("unaligned", "bucket length %d is not a multiple of 8 >= 16", l)
	}
	if l > len(b) {
		d.fail("len-mismatch", "bucket length %d exceeds the %d bytes available", l, len(b))
	}
	d.zero(b[12:16], "bucket pad")
	n := N("bucket", U("weight", be16(b[2:])), U("watch_port", be32(b[4:])), U("watch_group", be32(b[8:])))
	n.Kids = d.actions(b[16:l], base+16)
	return n, l
}

func (d *dec) action(b []byte, base int) (*Node, int) {
	d.push("action")
	d.need(b, 4, "action header")
	at, al := uint16(be16(b)), int(be16(b[2:]))
	d.slot(base, 2, "type")
	d.slot(base+2, 2, "len")
	if al < 8 || al%8 != 0 {
		d.fail("unaligned", "action type %d length %d is not a multiple of 8 >= 8", at, al)
	}
	if al > len(b) {
		d.fail("len-mismatch", "action type %d length %d exceeds the %d bytes available", at, al, len(b))
	}
	b = b[:al]
	if at == 0xffff {
		d.pop()
		return d.nxAction(b, base), al
	}
	info, ok := stdActions[at]
	if !ok {
		d.fail("bad-type", "action type %d is not defined by OF1.3", at)
	}
	d.pop()
	d.push(info.kind)
	defer d.pop()
	want8 := func() {
		if al != 8 {
			d.fail("len-mismatch", "%s length %d, want 8", info.kind, al)
		}
	}
	switch info.body {
	case "output":
		if al != 16 {
			d.fail("len-mismatch", "output action length %d, want 16", al)
		}
		d.zero(b[10:16], "output pad")
		return N(info.kind, U("port", be32(b[4:])), U("max_len", be16(b[8:]))), al
	case "pad4":
		want8()
		d.zero(b[4:8], info.kind+" pad")
		return N(info.kind), al
	case "ttl":
		want8()
		d.zero(b[5:8], info.kind+" pad")
		return N(info.kind, U("ttl", uint64(b[4]))), al
	case "ethertype":
		want8()
		d.zero(b[6:8], info.kind+" pad")
		return N(info.kind, U("ethertype", be16(b[4:]))), al
	case "u32:queue_id", "u32:group_id":
		want8()
		return N(info.kind, U(info.body[4:], be32(b[4:]))), al
	case "set_field":
		o, used := d.oxm(b[4:], base+4)
		if (4+used+7)/8*8 != al {
			d.fail("len-mismatch", "set_field length %d, the OXM TLV occupies %d bytes (=> %d)", al, used, (4+used+7)/8*8)
		}
		d.zero(b[4+used:], "set_field pad")
		return N(info.kind).Add(o), al
	}
	panic("unreachable")
}

func (d *dec) nxAction(b []byte, base int) *Node {
	d.push("action.experimenter")
	al := len(b)
	d.need(b, 10, "experimenter action header")
	vendor := be32(b[4:])
	d.slot(base+4, 4, "vendor")
	if vendor != NiciraVendor {
		d.fail("bad-type", "experimenter action vendor %#x (only Nicira 0x2320 is modelled)", vendor)
	}
	if al < 16 {
		d.fail("len-mismatch", "Nicira action length %d < 16", al)
	}
	st := uint16(be16(b[8:]))
	d.slot(base+8, 2, "subtype")
	kind, ok := nxSubtypeKind[st]
	if !ok {
		d.fail("bad-type", "NXAST subtype %d is not modelled", st)
	}
	d.pop()
	d.push(kind)
	defer d.pop()
	size := func(n int) {
		if al != n {
			d.fail("len-mismatch", "%s length %d, want %d", kind, al, n)
		}
	}
	p := b[10:]
	switch kind {
	case "nx.resubmit", "nx.resubmit_table", "nx.ct_resubmit":
		size(16)
		d.zero(p[3:6], kind+" pad")
		if kind == "nx.resubmit" && p[2] != 0 {
			d.fail("nonzero-pad", "NXAST_RESUBMIT table byte is %#x, must be zero", p[2])
		}
		return N(kind, U("in_port", be16(p)), U("table", uint64(p[2])))
	case "nx.reg_move":
		size(24)
		return N(kind, U("n_bits", be16(p)), U("src_ofs", be16(p[2:])), U("dst_ofs", be16(p[4:])), U("src", be32(p[6:])), U("dst", be32(p[10:])))
	case "nx.reg_load":
		size(24)
		return N(kind, U("ofs_nbits", be16(p)), U("dst", be32(p[2:])), U("value", be64(p[6:])))
	case "nx.note":
		return N(kind, B("note", p))
	case "nx.output_reg":
		size(24)
		d.zero(p[8:14], "output_reg zero")
		return N(kind, U("ofs_nbits", be16(p)), U("src", be32(p[2:])), U("max_len", be16(p[6:])))
	case "nx.dec_ttl", "nx.ct_clear":
		size(16)
		d.zero(p, kind+" pad")
		return N(kind)
	case "nx.controller":
		size(16)
		d.zero(p[5:6], "controller zero")
		return N(kind, U("max_len", be16(p)), U("controller_id", be16(p[2:])), U("reason", uint64(p[4])))
	case "nx.conjunction":
		size(16)
		return N(kind, U("clause", uint64(p[0])), U("n_clauses", uint64(p[1])), U("id", be32(p[2:])))
	case "nx.dec_ttl_cnt_ids":
		nc := int(be16(p))
		d.slot(base+10, 2, "count")
		d.zero(p[2:6], "cnt_ids zero")
		want := (16 + 2*nc + 7) / 8 * 8
		if al != want {
			d.fail("len-mismatch", "dec_ttl_cnt_ids with %d ids has length %d, want %d", nc, al, want)
		}
		d.zero(p[6+2*nc:], "cnt_ids pad")
		return N(kind, U("n_controllers", uint64(nc)), B("ids", p[6:6+2*nc]))
	case "nx.reg_load2":
		o, used := d.oxm(p, base+10)
		if (10+used+7)/8*8 != al {
			d.fail("len-mismatch", "reg_load2 length %d, the OXM TLV occupies %d bytes (=> %d)", al, used, (10+used+7)/8*8)
		}
		d.zero(p[used:], "reg_load2 pad")
		return N(kind).Add(o)
	case "nx.ct":
		d.need(p, 14, "nx_action_conntrack")
		d.zero(p[9:12], "ct pad")
		n := N(kind, U("flags", be16(p)), U("zone_src", be32(p[2:])), U("zone_ofs_nbits", be16(p[6:])), U("recirc_table", uint64(p[8])), U("alg", be16(p[12:])))
		n.Kids = d.actions(p[14:], base+24)
		return n
	case "nx.nat":
		d.need(p, 6, "nx_action_nat")
		d.zero(p[0:2], "nat pad")
		rp := be16(p[4:])
		d.slot(base+14, 2, "bitmap")
		n := N(kind, U("flags", be16(p[2:])), U("range_present", rp))
		if rp&^0x3f != 0 {
			d.fail("bad-value", "nat range_present %#x has undefined bits", rp)
		}
		off := 6
		for bit, w := range []int{4, 4, 16, 16, 2, 2} {
			if rp&(1<<uint(bit)) != 0 {
				if off+w > len(p) {
					d.fail("len-mismatch", "nat range field %s does not fit: action length %d", natNames[bit], al)
				}
				n.With(B(natNames[bit], p[off:off+w]))
				off += w
			}
		}
		if (10+off+7)/8*8 != al {
			d.fail("len-mismatch", "nat action length %d, presence bitmap %#x accounts for %d (=> %d)", al, rp, 10+off, (10+off+7)/8*8)
		}
		d.zero(p[off:], "nat pad")
		return n
	case "nx.learn":
		d.need(p, 22, "nx_action_learn")
		d.zero(p[17:18], "learn pad")
		n := N(kind, U("idle_timeout", be16(p)), U("hard_timeout", be16(p[2:])), U("priority", be16(p[4:])), U("cookie", be64(p[6:])),
			U("flags", be16(p[14:])), U("table_id", uint64(p[16])), U("fin_idle_timeout", be16(p[18:])), U("fin_hard_timeout", be16(p[20:])))
		off := 22
		for len(p)-off >= 2 {
			h := uint16(be16(p[off:]))
			if h == 0 {
				break // end of specs: the rest is padding
			}
			d.push("learn_spec")
			d.slot(base+10+off, 2, "type")
			if h&0xc400 != 0 {
				d.fail("bad-value", "flow_mod_spec header %#04x has reserved bits set", h)
			}
			src, dst, nb := (h>>13)&1, (h>>11)&3, int(h&0x3ff)
			if dst == 3 {
				d.fail("bad-type", "flow_mod_spec header %#04x: destination kind 3 is reserved", h)
			}
			if dst == 2 && src != 0 {
				d.fail("bad-type", "flow_mod_spec header %#04x: output takes a field source", h)
			}
			s := N("learn_spec", U("src_kind", uint64(src)), U("dst_kind", uint64(dst)), U("n_bits", uint64(nb)))
			off += 2
			if src == 1 {
				w := 2 * ((nb + 15) / 16)
				if off+w > len(p) {
					d.fail("len-mismatch", "flow_mod_spec immediate of %d bytes runs past the action", w)
				}
				s.With(B("src_value", p[off:off+w]))
				off += w
			} else {
				if off+6 > len(p) {
					d.fail("len-mismatch", "flow_mod_spec source field runs past the action")
				}
				s.With(U("src_field", be32(p[off:])), U("src_ofs", be16(p[off+4:])))
				off += 6
			}
			if dst != 2 {
				if off+6 > len(p) {
					d.fail("len-mismatch", "flow_mod_spec destination field runs past the action")
				}
				s.With(U("dst_field", be32(p[off:])), U("dst_ofs", be16(p[off+4:])))
				off += 6
			}
			n.Add(s)
			d.pop()
		}
		if (10+off+7)/8*8 != al {
			d.fail("len-mismatch", "learn action length %d, specs end at %d (=> %d)", al, 10+off, (10+off+7)/8*8)
		}
		d.zero(p[off:], "learn pad")
		return n
	}
	panic("unreachable")
}

var natNames = []string{"ipv4_min", "ipv4_max", "ipv6_min", "ipv6_max", "proto_min", "proto_max"}
