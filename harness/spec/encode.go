package spec

import (
	"encoding/binary"
	"fmt"
)

// Encode serialises a tree strictly by the rules of Appendix A: lengths,
// counts and type codes are computed, padding is zero.
func Encode(n *Node) []byte {
	switch {
	case len(n.Kind) > 4 && n.Kind[:4] == "msg.":
		return encMessage(n)
	case n.Kind == "match":
		return encMatch(n)
	case n.Kind == "oxm":
		return encOXM(n)
	case n.Kind == "bucket":
		return encBucket(n)
	case len(n.Kind) > 6 && n.Kind[:6] == "instr.":
		return encInstr(n)
	case (len(n.Kind) > 4 && n.Kind[:4] == "act.") || (len(n.Kind) > 3 && n.Kind[:3] == "nx."):
		return encAction(n)
	}
	panic("spec.Encode: unknown kind " + n.Kind)
}

type w struct{ b []byte }

func (w *w) u8(v uint64)  { w.b = append(w.b, byte(v)) }
func (w *w) u16(v uint64) { w.b = binary.BigEndian.AppendUint16(w.b, uint16(v)) }
func (w *w) u32(v uint64) { w.b = binary.BigEndian.AppendUint32(w.b, uint32(v)) }
func (w *w) u64(v uint64) { w.b = binary.BigEndian.AppendUint64(w.b, v) }
func (w *w) raw(b []byte) { w.b = append(w.b, b...) }
func (w *w) pad(n int)    { w.b = append(w.b, make([]byte, n)...) }
func (w *w) fixed(b []byte, n int) {
	x := make([]byte, n)
	copy(x, b)
	w.b = append(w.b, x...)
}
func (w *w) align8() {
	if r := len(w.b) % 8; r != 0 {
		w.pad(8 - r)
	}
}

func kidsOf(n *Node, prefix ...string) []*Node {
	var out []*Node
	for _, k := range n.Kids {
		for _, p := range prefix {
			if len(k.Kind) >= len(p) && k.Kind[:len(p)] == p {
				out = append(out, k)
				break
			}
		}
	}
	return out
}

func encMessage(n *Node) []byte {
	t := MsgType(n.Kind)
	if t < 0 {
		panic("spec: no ofp_type for " + n.Kind)
	}
	o := &w{}
	if n.Kind == "msg.hello" && n.Has("version") {
		// OF 1.3.5 6.3.1: the version field of a hello is the highest version its sender supports
		o.u8(n.Get("version"))
	} else {
		o.u8(OFVersion)
	}
	o.u8(uint64(t))
	o.u16(0) // patched below
	o.u32(n.Get("xid"))
	switch n.Kind {
	case "msg.hello":
		for _, e := range n.Kids {
			var body []byte
			et := uint64(1)
			if e.Kind == "hello.versionbitmap" {
				body = e.GetB("bitmaps")
			} else {
				et = e.Get("type")
				body = e.GetB("data")
			}
			o.u16(et)
			o.u16(uint64(4 + len(body)))
			o.raw(body)
			o.align8()
		}
	case "msg.error":
		o.u16(n.Get("type"))
		o.u16(n.Get("code"))
		o.raw(n.GetB("data"))
	case "msg.error_exp":
		o.u16(0xffff)
		o.u16(n.Get("exp_type"))
		o.u32(n.Get("experimenter"))
		o.raw(n.GetB("data"))
	case "msg.echo_request", "msg.echo_reply":
		o.raw(n.GetB("data"))
	case "msg.features_request", "msg.get_config_request", "msg.barrier_request", "msg.barrier_reply":
	case "msg.features_reply":
		o.u64(n.Get("datapath_id"))
		o.u32(n.Get("n_buffers"))
		o.u8(n.Get("n_tables"))
		o.u8(n.Get("auxiliary_id"))
		o.pad(2)
		o.u32(n.Get("capabilities"))
		o.u32(n.Get("reserved"))
	case "msg.get_config_reply", "msg.set_config":
		o.u16(n.Get("flags"))
		o.u16(n.Get("miss_send_len"))
	case "msg.packet_in":
		o.u32(n.Get("buffer_id"))
		o.u16(n.Get("total_len"))
		o.u8(n.Get("reason"))
		o.u8(n.Get("table_id"))
		o.u64(n.Get("cookie"))
		o.raw(encMatch(n.Kids[0]))
		o.pad(2)
		o.raw(n.GetB("data"))
	case "msg.flow_removed":
		o.u64(n.Get("cookie"))
		o.u16(n.Get("priority"))
		o.u8(n.Get("reason"))
		o.u8(n.Get("table_id"))
		o.u32(n.Get("duration_sec"))
		o.u32(n.Get("duration_nsec"))
		o.u16(n.Get("idle_timeout"))
		o.u16(n.Get("hard_timeout"))
		o.u64(n.Get("packet_count"))
		o.u64(n.Get("byte_count"))
		o.raw(encMatch(n.Kids[0]))
	case "msg.port_status":
		o.u8(n.Get("reason"))
		o.pad(7)
		o.raw(encPort(n.Kids[0]))
	case "msg.packet_out":
		var acts []byte
		for _, a := range n.Kids {
			acts = append(acts, encAction(a)...)
		}
		o.u32(n.Get("buffer_id"))
		o.u32(n.Get("in_port"))
		o.u16(uint64(len(acts)))
		o.pad(6)
		o.raw(acts)
		o.raw(n.GetB("data"))
	case "msg.flow_mod":
		o.u64(n.Get("cookie"))
		o.u64(n.Get("cookie_mask"))
		o.u8(n.Get("table_id"))
		o.u8(n.Get("command"))
		o.u16(n.Get("idle_timeout"))
		o.u16(n.Get("hard_timeout"))
		o.u16(n.Get("priority"))
		o.u32(n.Get("buffer_id"))
		o.u32(n.Get("out_port"))
		o.u32(n.Get("out_group"))
		o.u16(n.Get("flags"))
		o.pad(2)
		o.raw(encMatch(n.Kids[0]))
		for _, i := range n.Kids[1:] {
			o.raw(encInstr(i))
		}
	case "msg.group_mod":
		o.u16(n.Get("command"))
		o.u8(n.Get("type"))
		o.pad(1)
		o.u32(n.Get("group_id"))
		for _, b := range n.Kids {
			o.raw(encBucket(b))
		}
	case "msg.port_mod":
		o.u32(n.Get("port_no"))
		o.pad(4)
		o.fixed(n.GetB("hw_addr"), 6)
		o.pad(2)
		o.u32(n.Get("config"))
		o.u32(n.Get("mask"))
		o.u32(n.Get("advertise"))
		o.pad(4)
	case "msg.multipart_request":
		o.u16(n.Get("mp_type"))
		o.u16(n.Get("flags"))
		o.pad(4)
		for _, r := range n.Kids {
			switch r.Kind {
			case "mpreq.flow", "mpreq.aggregate":
				o.u8(r.Get("table_id"))
				o.pad(3)
				o.u32(r.Get("out_port"))
				o.u32(r.Get("out_group"))
				o.pad(4)
				o.u64(r.Get("cookie"))
				o.u64(r.Get("cookie_mask"))
				o.raw(encMatch(r.Kids[0]))
			case "mpreq.port":
				o.u32(r.Get("port_no"))
				o.pad(4)
			case "mpreq.queue":
				o.u32(r.Get("port_no"))
				o.u32(r.Get("queue_id"))
			case "mpreq.raw":
				o.raw(r.GetB("data"))
			default:
				panic("spec: bad multipart request body " + r.Kind)
			}
		}
	case "msg.multipart_reply":
		o.u16(n.Get("mp_type"))
		o.u16(n.Get("flags"))
		o.pad(4)
		for _, r := range n.Kids {
			o.raw(encMPRecord(r))
		}
	case "msg.nx.set_controller_id":
		o.u32(NiciraVendor)
		o.u32(NXTSetControllerID)
		o.pad(6)
		o.u16(n.Get("controller_id"))
	case "msg.nx.tlv_table_mod":
		o.u32(NiciraVendor)
		o.u32(NXTTlvTableMod)
		o.u16(n.Get("command"))
		o.pad(6)
		encTlvMaps(o, n)
	case "msg.nx.tlv_table_request":
		o.u32(NiciraVendor)
		o.u32(NXTTlvTableRequest)
	case "msg.nx.tlv_table_reply":
		o.u32(NiciraVendor)
		o.u32(NXTTlvTableReply)
		o.u32(n.Get("max_option_space"))
		o.u16(n.Get("max_fields"))
		o.pad(10)
		encTlvMaps(o, n)
	case "msg.onf.bundle_ctrl":
		o.u32(ONFVendor)
		o.u32(ONFBundleCtrl)
		o.u32(n.Get("bundle_id"))
		o.u16(n.Get("type"))
		o.u16(n.Get("flags"))
		encProps(o, n.Kids)
	case "msg.onf.bundle_add":
		o.u32(ONFVendor)
		o.u32(ONFBundleAdd)
		o.u32(n.Get("bundle_id"))
		o.pad(2)
		o.u16(n.Get("flags"))
		o.raw(encMessage(n.Kids[0]))
		if len(n.Kids) > 1 {
			o.align8()
			encProps(o, n.Kids[1:])
		}
	default:
		panic("spec: cannot encode " + n.Kind)
	}
	if len(o.b) > 0xffff {
		panic(fmt.Sprintf("spec: message %s is %d bytes", n.Kind, len(o.b)))
	}
	binary.BigEndian.PutUint16(o.b[2:], uint16(len(o.b)))
	return o.b
}

func encProps(o *w, props []*Node) {
	for _, p := range props {
		d := p.GetB("data")
		o.u16(0xffff)
		o.u16(uint64(12 + len(d)))
		o.u32(p.Get("experimenter"))
		o.u32(p.Get("exp_type"))
		o.raw(d)
		o.align8()
	}
}

func encTlvMaps(o *w, n *Node) {
	for _, m := range n.Kids {
		o.u16(m.Get("option_class"))
		o.u8(m.Get("option_type"))
		o.u8(m.Get("option_len"))
		o.u16(m.Get("index"))
		o.pad(2)
	}
}

func encPort(p *Node) []byte {
	o := &w{}
	o.u32(p.Get("port_no"))
	o.pad(4)
	o.fixed(p.GetB("hw_addr"), 6)
	o.pad(2)
	o.fixed(p.GetB("name"), 16)
	for _, f := range []string{"config", "state", "curr", "advertised", "supported", "peer", "curr_speed", "max_speed"} {
		o.u32(p.Get(f))
	}
	return o.b
}

func encMPRecord(r *Node) []byte {
	o := &w{}
	switch r.Kind {
	case "mprep.desc":
		o.fixed(r.GetB("mfr_desc"), 256)
		o.fixed(r.GetB("hw_desc"), 256)
		o.fixed(r.GetB("sw_desc"), 256)
		o.fixed(r.GetB("serial_num"), 32)
		o.fixed(r.GetB("dp_desc"), 256)
	case "mprep.flow":
		o.u16(0)
		o.u8(r.Get("table_id"))
		o.pad(1)
		o.u32(r.Get("duration_sec"))
		o.u32(r.Get("duration_nsec"))
		o.u16(r.Get("priority"))
		o.u16(r.Get("idle_timeout"))
		o.u16(r.Get("hard_timeout"))
		o.u16(r.Get("flags"))
		o.pad(4)
		o.u64(r.Get("cookie"))
		o.u64(r.Get("packet_count"))
		o.u64(r.Get("byte_count"))
		o.raw(encMatch(r.Kids[0]))
		for _, i := range r.Kids[1:] {
			o.raw(encInstr(i))
		}
		binary.BigEndian.PutUint16(o.b, uint16(len(o.b)))
	case "mprep.aggregate":
		o.u64(r.Get("packet_count"))
		o.u64(r.Get("byte_count"))
		o.u32(r.Get("flow_count"))
		o.pad(4)
	case "mprep.table":
		o.u8(r.Get("table_id"))
		o.pad(3)
		o.u32(r.Get("active_count"))
		o.u64(r.Get("lookup_count"))
		o.u64(r.Get("matched_count"))
	case "mprep.port":
		o.u32(r.Get("port_no"))
		o.pad(4)
		for _, c := range portCounters {
			o.u64(r.Get(c))
		}
		o.u32(r.Get("duration_sec"))
		o.u32(r.Get("duration_nsec"))
	case "mprep.queue":
		o.u32(r.Get("port_no"))
		o.u32(r.Get("queue_id"))
		o.u64(r.Get("tx_bytes"))
		o.u64(r.Get("tx_packets"))
		o.u64(r.Get("tx_errors"))
		o.u32(r.Get("duration_sec"))
		o.u32(r.Get("duration_nsec"))
	default:
		panic("spec: bad multipart reply record " + r.Kind)
	}
	return o.b
}

func encMatch(m *Node) []byte {
	o := &w{}
	o.u16(1)
	o.u16(0)
	for _, f := range m.Kids {
		o.raw(encOXM(f))
	}
	binary.BigEndian.PutUint16(o.b[2:], uint16(len(o.b)))
	o.align8()
	return o.b
}

func encOXM(f *Node) []byte {
	o := &w{}
	v, m := f.GetB("value"), f.GetB("mask")
	o.u16(f.Get("class"))
	o.u8(f.Get("field")<<1 | f.Get("hasmask")&1)
	pl := len(v)
	if f.Get("hasmask") == 1 {
		pl += len(m)
	}
	if f.Get("class") == ClassExp {
		pl += 4
	}
	o.u8(uint64(pl))
	if f.Get("class") == ClassExp {
		o.u32(f.Get("experimenter"))
	}
	o.raw(v)
	if f.Get("hasmask") == 1 {
		o.raw(m)
	}
	return o.b
}

func encInstr(i *Node) []byte {
	o := &w{}
	o.u16(uint64(instrType[i.Kind]))
	o.u16(0)
	switch i.Kind {
	case "instr.goto_table":
		o.u8(i.Get("table_id"))
		o.pad(3)
	case "instr.write_metadata":
		o.pad(4)
		o.u64(i.Get("metadata"))
		o.u64(i.Get("metadata_mask"))
	case "instr.meter":
		o.u32(i.Get("meter_id"))
	default:
		o.pad(4)
		for _, a := range i.Kids {
			o.raw(encAction(a))
		}
	}
	binary.BigEndian.PutUint16(o.b[2:], uint16(len(o.b)))
	return o.b
}

func encBucket(b *Node) []byte {
	o := &w{}
	o.u16(0)
	o.u16(b.Get("weight"))
	o.u32(b.Get("watch_port"))
	o.u32(b.Get("watch_group"))
	o.pad(4)
	for _, a := range b.Kids {
		o.raw(encAction(a))
	}
	binary.BigEndian.PutUint16(o.b, uint16(len(o.b)))
	return o.b
}

func encAction(a *Node) []byte {
	o := &w{}
	if t, ok := stdActionType[a.Kind]; ok {
		o.u16(uint64(t))
		o.u16(0)
		switch stdActions[t].body {
		case "output":
			o.u32(a.Get("port"))
			o.u16(a.Get("max_len"))
			o.pad(6)
		case "pad4":
			o.pad(4)
		case "ttl":
			o.u8(a.Get("ttl"))
			o.pad(3)
		case "ethertype":
			o.u16(a.Get("ethertype"))
			o.pad(2)
		case "u32:queue_id":
			o.u32(a.Get("queue_id"))
		case "u32:group_id":
			o.u32(a.Get("group_id"))
		case "set_field":
			o.raw(encOXM(a.Kids[0]))
			o.align8()
		}
		binary.BigEndian.PutUint16(o.b[2:], uint16(len(o.b)))
		return o.b
	}
	st, ok := nxKindSubtype[a.Kind]
	if !ok {
		panic("spec: cannot encode action " + a.Kind)
	}
	o.u16(0xffff)
	o.u16(0)
	o.u32(NiciraVendor)
	o.u16(uint64(st))
	switch a.Kind {
	case "nx.resubmit", "nx.resubmit_table", "nx.ct_resubmit":
		o.u16(a.Get("in_port"))
		o.u8(a.Get("table"))
		o.pad(3)
	case "nx.reg_move":
		o.u16(a.Get("n_bits"))
		o.u16(a.Get("src_ofs"))
		o.u16(a.Get("dst_ofs"))
		o.u32(a.Get("src"))
		o.u32(a.Get("dst"))
	case "nx.reg_load":
		o.u16(a.Get("ofs_nbits"))
		o.u32(a.Get("dst"))
		o.u64(a.Get("value"))
	case "nx.note":
		o.raw(a.GetB("note"))
		o.align8()
	case "nx.output_reg":
		o.u16(a.Get("ofs_nbits"))
		o.u32(a.Get("src"))
		o.u16(a.Get("max_len"))
		o.pad(6)
	case "nx.dec_ttl", "nx.ct_clear":
		o.pad(6)
	case "nx.controller":
		o.u16(a.Get("max_len"))
		o.u16(a.Get("controller_id"))
		o.u8(a.Get("reason"))
		o.pad(1)
	case "nx.conjunction":
		o.u8(a.Get("clause"))
		o.u8(a.Get("n_clauses"))
		o.u32(a.Get("id"))
	case "nx.dec_ttl_cnt_ids":
		o.u16(a.Get("n_controllers"))
		o.pad(4)
		o.raw(a.GetB("ids"))
		o.align8()
	case "nx.reg_load2":
		o.raw(encOXM(a.Kids[0]))
		o.align8()
	case "nx.ct":
		o.u16(a.Get("flags"))
		o.u32(a.Get("zone_src"))
		o.u16(a.Get("zone_ofs_nbits"))
		o.u8(a.Get("recirc_table"))
		o.pad(3)
		o.u16(a.Get("alg"))
		for _, k := range a.Kids {
			o.raw(encAction(k))
		}
	case "nx.nat":
		o.pad(2)
		o.u16(a.Get("flags"))
		o.u16(a.Get("range_present"))
		for _, nm := range natNames {
			if a.Has(nm) {
				o.raw(a.GetB(nm))
			}
		}
		o.align8()
	case "nx.learn":
		o.u16(a.Get("idle_timeout"))
		o.u16(a.Get("hard_timeout"))
		o.u16(a.Get("priority"))
		o.u64(a.Get("cookie"))
		o.u16(a.Get("flags"))
		o.u8(a.Get("table_id"))
		o.pad(1)
		o.u16(a.Get("fin_idle_timeout"))
		o.u16(a.Get("fin_hard_timeout"))
		for _, s := range a.Kids {
			o.u16(s.Get("src_kind")<<13 | s.Get("dst_kind")<<11 | s.Get("n_bits")&0x3ff)
			if s.Get("src_kind") == 1 {
				o.raw(s.GetB("src_value"))
			} else {
				o.u32(s.Get("src_field"))
				o.u16(s.Get("src_ofs"))
			}
			if s.Get("dst_kind") != 2 {
				o.u32(s.Get("dst_field"))
				o.u16(s.Get("dst_ofs"))
			}
		}
		o.align8()
	}
	binary.BigEndian.PutUint16(o.b[2:], uint16(len(o.b)))
	return o.b
}
