// Package spec is an independent model of the OpenFlow 1.3 / Nicira / ONF
// bundle wire formats, written from the specifications (OpenFlow Switch
// Specification 1.3.5 section 7, OVS nicira-ext.h / ofp-actions.c comments,
// OVS meta-flow.h, ONF EXT-230) and NOT from the library under test. It must
// never import the library. Layouts are listed in DESIGN.md Appendix A.
//
// One generic tree type carries every message and element: a Node has a kind
// name, ordered named fields (integers or byte strings) and ordered children.
// Derived wire fields (lengths, type codes, padding, counts) are not part of
// the tree: Encode computes them by the rules and Decode validates them.
package spec

import (
	"bytes"
	"fmt"
	"strings"
)

type Field struct {
	Name string
	U    uint64
	B    []byte // non-nil => byte-string field
}

type Node struct {
	Kind string
	F    []Field
	Kids []*Node
}

func N(kind string, f ...Field) *Node { return &Node{Kind: kind, F: f} }

func U(name string, v uint64) Field { return Field{Name: name, U: v} }

func B(name string, b []byte) Field {
	c := make([]byte, len(b))
	copy(c, b)
	return Field{Name: name, B: c}
}

func (n *Node) Add(kids ...*Node) *Node {
	n.Kids = append(n.Kids, kids...)
	return n
}

func (n *Node) With(f ...Field) *Node {
	n.F = append(n.F, f...)
	return n
}

// Get returns the integer field name (0 when absent).
func (n *Node) Get(name string) uint64 {
	for _, f := range n.F {
		if f.Name == name {
			return f.U
		}
	}
	return 0
}

func (n *Node) Has(name string) bool {
	for _, f := range n.F {
		if f.Name == name {
			return true
		}
	}
	return false
}

func (n *Node) GetB(name string) []byte {
	for _, f := range n.F {
		if f.Name == name {
			return f.B
		}
	}
	return nil
}

func (n *Node) Set(name string, v uint64) {
	for i := range n.F {
		if n.F[i].Name == name {
			n.F[i].U = v
			return
		}
	}
	n.F = append(n.F, U(name, v))
}

// Clone is a deep copy.
func (n *Node) Clone() *Node {
	if n == nil {
		return nil
	}
	c := &Node{Kind: n.Kind}
	for _, f := range n.F {
		if f.B != nil {
			c.F = append(c.F, B(f.Name, f.B))
		} else {
			c.F = append(c.F, f)
		}
	}
	for _, k := range n.Kids {
		c.Kids = append(c.Kids, k.Clone())
	}
	return c
}

// String renders the tree on one line, e.g.
// msg.flow_mod{xid=1 cookie=0 ...}[match[oxm{class=0x8000 field=6 ...}] instr.goto_table{table_id=3}]
func (n *Node) String() string {
	var sb strings.Builder
	n.write(&sb)
	return sb.String()
}

func (n *Node) write(sb *strings.Builder) {
	if n == nil {
		sb.WriteString("<nil>")
		return
	}
	sb.WriteString(n.Kind)
	if len(n.F) > 0 {
		sb.WriteByte('{')
		for i, f := range n.F {
			if i > 0 {
				sb.WriteByte(' ')
			}
			if f.B != nil {
				if len(f.B) > 48 {
					fmt.Fprintf(sb, "%s=%x..(%dB)", f.Name, f.B[:24], len(f.B))
				} else {
					fmt.Fprintf(sb, "%s=%x", f.Name, f.B)
				}
			} else {
				fmt.Fprintf(sb, "%s=%#x", f.Name, f.U)
			}
		}
		sb.WriteByte('}')
	}
	if len(n.Kids) > 0 {
		sb.WriteByte('[')
		for i, k := range n.Kids {
			if i > 0 {
				sb.WriteByte(' ')
			}
			if i >= 6 && len(n.Kids) > 8 {
				fmt.Fprintf(sb, "...(%d more)", len(n.Kids)-i)
				break
			}
			k.write(sb)
		}
		sb.WriteByte(']')
	}
}

// Diff returns "" when the trees are equal, else the path of the first
// difference (kinds only, no indices -> usable in signatures) and a description
// (with indices).
func Diff(want, got *Node) (pathClass, detail string) {
	return diff(want, got, "", "")
}

func diff(a, b *Node, pc, pd string) (string, string) {
	if a == nil || b == nil {
		if a == b {
			return "", ""
		}
		return pc + "/<nil>", fmt.Sprintf("%s: want %v got %v", pd, a, b)
	}
	if a.Kind != b.Kind {
		return pc + "/" + a.Kind + ":kind", fmt.Sprintf("%s: kind want %s got %s", pd, a.Kind, b.Kind)
	}
	pc += "/" + a.Kind
	pd += "/" + a.Kind
	if len(a.F) != len(b.F) {
		return pc + ":fields", fmt.Sprintf("%s: field list want %v got %v", pd, fieldNames(a), fieldNames(b))
	}
	for i := range a.F {
		fa, fb := a.F[i], b.F[i]
		if fa.Name != fb.Name {
			return pc + ":fields", fmt.Sprintf("%s: field #%d want %s got %s", pd, i, fa.Name, fb.Name)
		}
		if (fa.B != nil) != (fb.B != nil) {
			return pc + "." + fa.Name, fmt.Sprintf("%s.%s: bytes/int mismatch", pd, fa.Name)
		}
		if fa.B != nil {
			if !bytes.Equal(fa.B, fb.B) {
				return pc + "." + fa.Name, fmt.Sprintf("%s.%s: want %x got %x", pd, fa.Name, fa.B, fb.B)
			}
		} else if fa.U != fb.U {
			return pc + "." + fa.Name, fmt.Sprintf("%s.%s: want %#x got %#x", pd, fa.Name, fa.U, fb.U)
		}
	}
	if len(a.Kids) != len(b.Kids) {
		return pc + ":children", fmt.Sprintf("%s: %d children wanted, got %d (want %s got %s)", pd, len(a.Kids), len(b.Kids), kidKinds(a), kidKinds(b))
	}
	for i := range a.Kids {
		if c, d := diff(a.Kids[i], b.Kids[i], pc, fmt.Sprintf("%s[%d]", pd, i)); c != "" {
			return c, d
		}
	}
	return "", ""
}

func fieldNames(n *Node) []string {
	var s []string
	for _, f := range n.F {
		s = append(s, f.Name)
	}
	return s
}

func kidKinds(n *Node) string {
	var s []string
	for i, k := range n.Kids {
		if i > 8 {
			s = append(s, "...")
			break
		}
		s = append(s, k.Kind)
	}
	return "[" + strings.Join(s, " ") + "]"
}

// Count returns the number of nodes in the tree and its depth.
func (n *Node) Count() (nodes, depth int) {
	if n == nil {
		return 0, 0
	}
	nodes = 1
	for _, k := range n.Kids {
		kn, kd := k.Count()
		nodes += kn
		if kd > depth {
			depth = kd
		}
	}
	return nodes, depth + 1
}

// Walk calls f for every node, parents first.
func (n *Node) Walk(f func(*Node)) {
	if n == nil {
		return
	}
	f(n)
	for _, k := range n.Kids {
		k.Walk(f)
	}
}
