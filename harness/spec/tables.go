package spec

// Tables transcribed from OpenFlow 1.3.5 (A.2.3.7 ofp_type, 7.2.3.7 OXM table,
// 7.2.4 instructions, 7.2.5 actions), OVS nicira-ext.h (NXAST_*, NXT_*) and OVS
// meta-flow.h (NXM field numbers and widths). See DESIGN.md Appendix A.

const (
	OFVersion = 4

	THello          = 0
	TError          = 1
	TEchoRequest    = 2
	TEchoReply      = 3
	TExperimenter   = 4
	TFeaturesReq    = 5
	TFeaturesReply  = 6
	TGetConfigReq   = 7
	TGetConfigReply = 8
	TSetConfig      = 9
	TPacketIn       = 10
	TFlowRemoved    = 11
	TPortStatus     = 12
	TPacketOut      = 13
	TFlowMod        = 14
	TGroupMod       = 15
	TPortMod        = 16
	TTableMod       = 17
	TMultipartReq   = 18
	TMultipartReply = 19
	TBarrierReq     = 20
	TBarrierReply   = 21

	NiciraVendor = 0x00002320
	ONFVendor    = 0x4f4e4600

	NXTSetControllerID = 20
	NXTTlvTableMod     = 24
	NXTTlvTableRequest = 25
	NXTTlvTableReply   = 26
	ONFBundleCtrl      = 2300
	ONFBundleAdd       = 2301

	MPDesc      = 0
	MPFlow      = 1
	MPAggregate = 2
	MPTable     = 3
	MPPort      = 4
	MPQueue     = 5

	ClassNXM0 = 0x0000
	ClassNXM1 = 0x0001
	ClassOF   = 0x8000
	ClassExp  = 0xffff
)

// MsgKinds maps ofp_type to the kind name of header-only or fixed messages.
var msgTypeOfKind = map[string]int{
	"msg.hello":                0,
	"msg.error":                1,
	"msg.error_exp":            1,
	"msg.echo_request":         2,
	"msg.echo_reply":           3,
	"msg.nx.set_controller_id": 4,
	"msg.nx.tlv_table_mod":     4,
	"msg.nx.tlv_table_request": 4,
	"msg.nx.tlv_table_reply":   4,
	"msg.onf.bundle_ctrl":      4,
	"msg.onf.bundle_add":       4,
	"msg.features_request":     5,
	"msg.features_reply":       6,
	"msg.get_config_request":   7,
	"msg.get_config_reply":     8,
	"msg.set_config":           9,
	"msg.packet_in":            10,
	"msg.flow_removed":         11,
	"msg.port_status":          12,
	"msg.packet_out":           13,
	"msg.flow_mod":             14,
	"msg.group_mod":            15,
	"msg.port_mod":             16,
	"msg.multipart_request":    18,
	"msg.multipart_reply":      19,
	"msg.barrier_request":      20,
	"msg.barrier_reply":        21,
}

// MsgType returns the ofp_type of a message kind (-1 when unknown).
func MsgType(kind string) int {
	if t, ok := msgTypeOfKind[kind]; ok {
		return t
	}
	return -1
}

// OXMInfo describes one match field.
type OXMInfo struct {
	Name     string
	Width    int  // bytes
	Maskable bool // per OF1.3.5 table 12 / meta-flow.h
	Variable bool // tun_metadata: any width 1..Width (multiples are not enforced, see DESIGN 4.1)
}

func oxmKey(class uint16, field uint8) uint32 { return uint32(class)<<8 | uint32(field) }

// OXMTable: (class, field) -> info.
var OXMTable = map[uint32]OXMInfo{}

// OXMByName: OVS name -> (class, field).
var OXMByName = map[string][2]int{}

func reg(class uint16, field uint8, name string, width int, maskable bool) {
	OXMTable[oxmKey(class, field)] = OXMInfo{Name: name, Width: width, Maskable: maskable}
	OXMByName[name] = [2]int{int(class), int(field)}
}

func init() {
	// OXM_OF_* (OpenFlow 1.3.5 table 11/12; 41-43 from later versions, used by the library)
	of := []struct {
		f int
		n string
		w int
		m bool
	}{
		{0, "OXM_OF_IN_PORT", 4, false}, {1, "OXM_OF_IN_PHY_PORT", 4, false}, {2, "OXM_OF_METADATA", 8, true},
		{3, "OXM_OF_ETH_DST", 6, true}, {4, "OXM_OF_ETH_SRC", 6, true}, {5, "OXM_OF_ETH_TYPE", 2, false},
		{6, "OXM_OF_VLAN_VID", 2, true}, {7, "OXM_OF_VLAN_PCP", 1, false}, {8, "OXM_OF_IP_DSCP", 1, false},
		{9, "OXM_OF_IP_ECN", 1, false}, {10, "OXM_OF_IP_PROTO", 1, false}, {11, "OXM_OF_IPV4_SRC", 4, true},
		{12, "OXM_OF_IPV4_DST", 4, true}, {13, "OXM_OF_TCP_SRC", 2, false}, {14, "OXM_OF_TCP_DST", 2, false},
		{15, "OXM_OF_UDP_SRC", 2, false}, {16, "OXM_OF_UDP_DST", 2, false}, {17, "OXM_OF_SCTP_SRC", 2, false},
		{18, "OXM_OF_SCTP_DST", 2, false}, {19, "OXM_OF_ICMPV4_TYPE", 1, false}, {20, "OXM_OF_ICMPV4_CODE", 1, false},
		{21, "OXM_OF_ARP_OP", 2, false}, {22, "OXM_OF_ARP_SPA", 4, true}, {23, "OXM_OF_ARP_TPA", 4, true},
		{24, "OXM_OF_ARP_SHA", 6, true}, {25, "OXM_OF_ARP_THA", 6, true}, {26, "OXM_OF_IPV6_SRC", 16, true},
		{27, "OXM_OF_IPV6_DST", 16, true}, {28, "OXM_OF_IPV6_FLABEL", 4, true}, {29, "OXM_OF_ICMPV6_TYPE", 1, false},
		{30, "OXM_OF_ICMPV6_CODE", 1, false}, {31, "OXM_OF_IPV6_ND_TARGET", 16, false}, {32, "OXM_OF_IPV6_ND_SLL", 6, false},
		{33, "OXM_OF_IPV6_ND_TLL", 6, false}, {34, "OXM_OF_MPLS_LABEL", 4, false}, {35, "OXM_OF_MPLS_TC", 1, false},
		{36, "OXM_OF_MPLS_BOS", 1, false}, {37, "OXM_OF_PBB_ISID", 3, true}, {38, "OXM_OF_TUNNEL_ID", 8, true},
		{39, "OXM_OF_IPV6_EXTHDR", 2, true}, {41, "OXM_OF_PBB_UCA", 1, false}, {42, "OXM_OF_TCP_FLAGS", 2, true},
		{43, "OXM_OF_ACTSET_OUTPUT", 4, false},
	}
	for _, e := range of {
		reg(ClassOF, uint8(e.f), e.n, e.w, e.m)
	}
	// NXM_OF_* (class 0)
	n0 := []struct {
		f int
		n string
		w int
	}{
		{0, "NXM_OF_IN_PORT", 2}, {1, "NXM_OF_ETH_DST", 6}, {2, "NXM_OF_ETH_SRC", 6}, {3, "NXM_OF_ETH_TYPE", 2},
		{4, "NXM_OF_VLAN_TCI", 2}, {5, "NXM_OF_IP_TOS", 1}, {6, "NXM_OF_IP_PROTO", 1}, {7, "NXM_OF_IP_SRC", 4},
		{8, "NXM_OF_IP_DST", 4}, {9, "NXM_OF_TCP_SRC", 2}, {10, "NXM_OF_TCP_DST", 2}, {11, "NXM_OF_UDP_SRC", 2},
		{12, "NXM_OF_UDP_DST", 2}, {13, "NXM_OF_ICMP_TYPE", 1}, {14, "NXM_OF_ICMP_CODE", 1}, {15, "NXM_OF_ARP_OP", 2},
		{16, "NXM_OF_ARP_SPA", 4}, {17, "NXM_OF_ARP_TPA", 4},
	}
	for _, e := range n0 {
		reg(ClassNXM0, uint8(e.f), e.n, e.w, true)
	}
	// NXM_NX_* (class 1)
	for i := 0; i < 16; i++ {
		reg(ClassNXM1, uint8(i), "NXM_NX_REG"+itoa(i), 4, true)
	}
	n1 := []struct {
		f int
		n string
		w int
	}{
		{16, "NXM_NX_TUN_ID", 8}, {17, "NXM_NX_ARP_SHA", 6}, {18, "NXM_NX_ARP_THA", 6}, {19, "NXM_NX_IPV6_SRC", 16},
		{20, "NXM_NX_IPV6_DST", 16}, {21, "NXM_NX_ICMPV6_TYPE", 1}, {22, "NXM_NX_ICMPV6_CODE", 1}, {23, "NXM_NX_ND_TARGET", 16},
		{24, "NXM_NX_ND_SLL", 6}, {25, "NXM_NX_ND_TLL", 6}, {26, "NXM_NX_IP_FRAG", 1}, {27, "NXM_NX_IPV6_LABEL", 4},
		{28, "NXM_NX_IP_ECN", 1}, {29, "NXM_NX_IP_TTL", 1}, {30, "NXM_NX_MPLS_TTL", 1}, {31, "NXM_NX_TUN_IPV4_SRC", 4},
		{32, "NXM_NX_TUN_IPV4_DST", 4}, {33, "NXM_NX_PKT_MARK", 4}, {34, "NXM_NX_TCP_FLAGS", 2}, {35, "NXM_NX_DP_HASH", 4},
		{36, "NXM_NX_RECIRC_ID", 4}, {37, "NXM_NX_CONJ_ID", 4}, {38, "NXM_NX_TUN_GBP_ID", 2}, {39, "NXM_NX_TUN_GBP_FLAGS", 1},
		{104, "NXM_NX_TUN_FLAGS", 2}, {105, "NXM_NX_CT_STATE", 4}, {106, "NXM_NX_CT_ZONE", 2}, {107, "NXM_NX_CT_MARK", 4},
		{108, "NXM_NX_CT_LABEL", 16}, {109, "NXM_NX_TUN_IPV6_SRC", 16}, {110, "NXM_NX_TUN_IPV6_DST", 16},
		{111, "NXM_NX_XXREG0", 16}, {112, "NXM_NX_XXREG1", 16}, {113, "NXM_NX_XXREG2", 16}, {114, "NXM_NX_XXREG3", 16},
		{119, "NXM_NX_CT_NW_PROTO", 1}, {120, "NXM_NX_CT_NW_SRC", 4}, {121, "NXM_NX_CT_NW_DST", 4},
		{122, "NXM_NX_CT_IPV6_SRC", 16}, {123, "NXM_NX_CT_IPV6_DST", 16}, {124, "NXM_NX_CT_TP_SRC", 2}, {125, "NXM_NX_CT_TP_DST", 2},
	}
	for _, e := range n1 {
		reg(ClassNXM1, uint8(e.f), e.n, e.w, true)
	}
	for i := 0; i < 64; i++ {
		k := oxmKey(ClassNXM1, uint8(40+i))
		OXMTable[k] = OXMInfo{Name: "NXM_NX_TUN_METADATA" + itoa(i), Width: 124, Maskable: true, Variable: true}
		OXMByName["NXM_NX_TUN_METADATA"+itoa(i)] = [2]int{ClassNXM1, 40 + i}
	}
}

func itoa(i int) string {
	if i == 0 {
		return "0"
	}
	s := ""
	for i > 0 {
		s = string(rune('0'+i%10)) + s
		i /= 10
	}
	return s
}

// LookupOXM returns the table entry for (class, field). ONF experimenter-class
// fields (class 0xffff + experimenter 0x4f4e4600) carry the OF1.5 field numbers
// 42 (tcp_flags) and 43 (actset_output).
func LookupOXM(class uint16, field uint8) (OXMInfo, bool) {
	if class == ClassExp {
		switch field {
		case 42:
			return OXMInfo{Name: "ONFOXM_ET_TCP_FLAGS", Width: 2, Maskable: true}, true
		case 43:
			return OXMInfo{Name: "ONFOXM_ET_ACTSET_OUTPUT", Width: 4, Maskable: false}, true
		}
		return OXMInfo{}, false
	}
	i, ok := OXMTable[oxmKey(class, field)]
	return i, ok
}

// Standard action kinds: type code -> (kind, body layout).
type actInfo struct {
	kind string
	body string // "pad4" | "ttl" | "ethertype" | "u32:<name>" | "output" | "set_field"
}

var stdActions = map[uint16]actInfo{
	0:  {"act.output", "output"},
	11: {"act.copy_ttl_out", "pad4"},
	12: {"act.copy_ttl_in", "pad4"},
	15: {"act.set_mpls_ttl", "ttl"},
	16: {"act.dec_mpls_ttl", "pad4"},
	17: {"act.push_vlan", "ethertype"},
	18: {"act.pop_vlan", "pad4"},
	19: {"act.push_mpls", "ethertype"},
	20: {"act.pop_mpls", "ethertype"},
	21: {"act.set_queue", "u32:queue_id"},
	22: {"act.group", "u32:group_id"},
	23: {"act.set_nw_ttl", "ttl"},
	24: {"act.dec_nw_ttl", "pad4"},
	25: {"act.set_field", "set_field"},
	26: {"act.push_pbb", "ethertype"},
	27: {"act.pop_pbb", "pad4"},
}

var stdActionType = map[string]uint16{}

// NX action subtypes handled structurally by the model.
var nxSubtypeKind = map[uint16]string{
	1:  "nx.resubmit",
	6:  "nx.reg_move",
	7:  "nx.reg_load",
	8:  "nx.note",
	14: "nx.resubmit_table",
	15: "nx.output_reg",
	16: "nx.learn",
	18: "nx.dec_ttl",
	20: "nx.controller",
	21: "nx.dec_ttl_cnt_ids",
	33: "nx.reg_load2",
	34: "nx.conjunction",
	35: "nx.ct",
	36: "nx.nat",
	43: "nx.ct_clear",
	44: "nx.ct_resubmit",
}

var nxKindSubtype = map[string]uint16{}

var instrKind = map[uint16]string{
	1: "instr.goto_table",
	2: "instr.write_metadata",
	3: "instr.write_actions",
	4: "instr.apply_actions",
	5: "instr.clear_actions",
	6: "instr.meter",
}

var instrType = map[string]uint16{}

func init() {
	for t, i := range stdActions {
		stdActionType[i.kind] = t
	}
	for s, k := range nxSubtypeKind {
		nxKindSubtype[k] = s
	}
	for t, k := range instrKind {
		instrType[k] = t
	}
}

// ActionKinds lists every action kind the model knows (for coverage labels).
func ActionKinds() []string {
	var s []string
	for _, i := range stdActions {
		s = append(s, i.kind)
	}
	for _, k := range nxSubtypeKind {
		s = append(s, k)
	}
	return s
}
