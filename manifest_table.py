# Source of MANIFEST.json (tools/mkmanifest.py). One entry per claimed property.
ENGINES = [
    dict(name="rapid+sweeps", path="/verif/harness/checks", serves_properties=[], kind_free_text=
         "Go test binary built from /repo's working tree (module replace => /repo, -tags verif): pgregory.net/rapid v1.3.0 "
         "generators + shrinking, exhaustive sweeps over finite sub-domains, driven shard-wise by /verif/verif"),
]
NOTES = ("Driver: /verif/verif (python3, stdlib). Every check rebuilds harness/checks against /repo's current working tree. "
         "Known findings: /verif/KNOWN_FINDINGS.txt (read-only at run time). VERIF_SEED selects the rapid seeds; sweeps ignore it.")

CLAIMED = {
 "C16": dict(
    technique="exhaustive enumeration of the finite domain against an arithmetic reference (property-based oracle, no sampling)",
    level_text="All 528 bit ranges and all 65,536 offset/width pairs are enumerated and compared with a bit-by-bit reference; within the stated domain this is complete.",
    level_note="Trusts the 10-line reference arithmetic in c16_test.go and that the verif hooks are plain wrappers of the unexported helpers."),
 "C18": dict(
    technique="model-based testing: exhaustive state x operation enumeration + rapid-generated call sequences against a tri-state reference model",
    level_text="Every one of the 6,561 reachable builder states x 16 operations and every call sequence up to length 4 is enumerated; longer sequences are sampled with rapid and checked after every step.",
    level_note="Observes the builder only through the encoded ct_state match field (value/mask bytes), as the property states; trusts the 8-flag tri-state model."),
}
for k in CLAIMED:
    ENGINES[0]["serves_properties"].append(k)

NOT_APPLICABLE = {p: "check under construction in this round (design in DESIGN.md section 10); not claimed until it runs clean on the unchanged tree"
                  for p in ["C01","C02","C03","C04","C05","C06","C07","C08","C09","C10","C11","C12","C13","C14","C15","C17","C19"]}
