# Source of MANIFEST.json (tools/mkmanifest.py). One entry per claimed property.
ENGINES = [
    dict(name="rapid+sweeps", path="/verif/harness/checks", serves_properties=[], kind_free_text=
         "Go test binary built from /repo's working tree (module replace => /repo, -tags verif): pgregory.net/rapid v1.3.0 "
         "generators + shrinking, exhaustive sweeps over finite sub-domains, driven shard-wise by /verif/verif"),
]
NOTES = ("Driver: /verif/verif (python3, stdlib). Every check rebuilds harness/checks against /repo's current working tree. "
         "Known findings: /verif/KNOWN_FINDINGS.txt (read-only at run time). VERIF_SEED selects the rapid seeds; sweeps ignore it.")

CLAIMED = {
 "C10": dict(
    technique="model-based testing of the stream (rapid scripts: frames x chunking x consumer x failure x second live stream x GOMAXPROCS) against a de-framer reference model with multiset/subset oracles, under the race detector",
    level_text="Generated scripts (1..400 well-formed frames of 8..6000 bytes incl. sizes around/above the pool buffers, arbitrary read chunking with forced cuts inside length prefixes, incomplete tails, slow consumers, connection failure after any byte, GOMAXPROCS 1..16) are played through a scripted in-memory connection; delivered messages must equal the complete frames as multisets (or be a sub-multiset after a failure, with exactly one error), nothing extra, and every delivered message's deep dump must be unchanged at the end. Both a copying parser (exact framing) and the real openflow13.Parse on conformant frames are used; built with -race.",
    level_note="Goroutine interleavings are sampled, not enumerated; loss is observable only as non-arrival within 30 s; frames are well formed by the property's precondition."),
 "C11": dict(
    technique="property-based concurrency testing (rapid scripts: producers x messages x pacing x slow peer x GOMAXPROCS) with a byte-stream oracle (re-framing, multiset equality, per-producer order), under the race detector",
    level_text="1..16 producer goroutines submit raw frames (8 B..60 KiB) and real library messages with xid = producer|sequence; the scripted connection records every write (instantly or as a slow peer). The concatenated bytes must re-frame by header length without remainder into exactly the submitted encodings (multiset), each once, with ascending sequence per producer.",
    level_note="Schedules sampled; a writer that batches whole messages into one Write is accepted (the property is about the byte stream); write errors are outside the property."),
 "C12": dict(
    technique="property-based testing (rapid), metamorphic: parse, take deep dump and re-encoding, overwrite the input buffer four ways, require dump and re-encoding unchanged",
    level_text="Frames that Parse accepts - conformant frames of every switch-originated kind from the independent encoder (all payload and action kinds), the library's own encodings of every parseable controller-originated kind, and hostile mutants that still parse - are parsed; after the first re-encoding the deep dump (all fields, unexported included) and the re-encoding must survive overwriting the input with 0xff, zeros, its byte-wise inverse and a generated pattern.",
    level_note="The deep dump follows every pointer/interface/slice/array, so a retained sub-slice shows as changed content; the stream variant (pool-buffer recycling) is part of C10."),
 "C13": dict(
    technique="property-based testing (rapid), history-based: generated sequences of Len / MarshalBinary / encode-through-container / decode on one value, compared for repeatability and for the value's deep dump",
    level_text="For a generated value of any encodable kind and a history of 2..12 operations {Len, MarshalBinary, size+encode through an enclosing container (instruction, bucket, conntrack, packet-out, flow-mod, group-mod, match, bundle add), decode}: every Len equals the first, every encoding equals the first byte for byte (also when the first operation is an encode without prior size query), the value's deep dump after the last operation equals the one after the first encoding, and repeated decodes agree.",
    level_note="The first Len/encode may complete derived fields; the value is compared from its state after the first encoding onwards."),
 "C06": dict(
    technique="property-based testing (rapid): one generated value of any encodable kind per case; size oracle and recursive container-embedding oracle (children's stand-alone encodings found intact, in order, zero padding only)",
    level_text="For a generated value of any of the ~125 encodable kinds and everything nested in it: Len() before and after encoding equals the number of bytes produced, and for the 28 container kinds the bytes after the container's header are exactly the stand-alone encodings of its children in order followed by at most 7 zero bytes. DHCP (options) and LLDP (TLVs) are checked through their Read side.",
    level_note="Container header sizes/child order come from the wire layouts, not from the library. Conntrack's nested actions (unexported, no accessor) are covered by C02/C03 only."),
 "C09": dict(
    technique="property-based testing (rapid) with dual construction against an independent RFC-layout packet model + exhaustive sweeps of every packed 8/16-bit group",
    level_text="Header values of every kind built through the API must encode to exactly the bytes the RFC layouts give for the same arguments, report that size, decode back to an observably equal value (dynamic payload types by ethertype / protocol / next-header chain included) and re-encode identically; frames are also taken bytes-first (incl. priority tags). Every value of VLAN TCI, IPv4 version/IHL, DSCP/ECN, flags/fragment offset, IPv6 class, flow label (all 2^20 in thorough), TCP offset/flags, fragment offset/M and IGMPv3 S/QRV is enumerated.",
    level_note="Trusts my transcription of the RFC layouts (harness/gen/packet.go, proto2.go); LLDP TLVs are judged for self-consistency only (the library's Length convention is not 802.1AB's). The dropped priority tag is a listed known finding."),
 "C05": dict(
    technique="property-based testing (rapid): encode/decode/re-encode round trip over API-built values, decoder-built values, elements alone and followed by others, frames followed by frames, compared through a reflective observer; coverage-guided rapid.MakeFuzz driver in thorough",
    level_text="Top-level messages of every controller- and switch-originated kind built through the API are encoded and decoded through Parse (or the caller-allocated receiver for kinds Parse does not dispatch); values that only the decoder can produce (parsed from conformant frames of the independent encoder, incl. ONF experimenter OXMs) go through the same cycle; every action/instruction/bucket/match-field kind is decoded alone and followed by another element. Oracle: decode succeeds, same Go kind, equal observable dump under a closed normalisation list, Len() == extent, re-encoding == original bytes.",
    level_note="Sampling. Normalisations are listed in the evidence rule; five decode-direction gaps (multipart request, bundle-add of undispatched kinds) are listed known findings."),
 "C08": dict(
    technique="fuzzing + property-based testing: one target per packet decoder, RFC-layout sample packets with located length-like fields, boundary/wrap-around overrides, exhaustive per-slot sweeps, native coverage-guided fuzzing (thorough); totality monitor as oracle",
    level_text="24 decoder entry points are driven with well-formed packets whose length-like fields (IHL, total length, header-extension length, option length, hardware length, data offset, source/group counts, aux length, DHCP/LLDP lengths) are overridden from boundary and wrap-around sets, truncated, byte-mutated, amplified to jumbo size, plus raw strings; the sweep enumerates every truncation, every 0x00/0xff byte, all 256 values of each one-byte slot and k*64 / k*16384 values of each two-byte slot on sample packets. Oracle: no panic, return within 20 s, < 1 GiB heap growth, allocation <= 1 KiB/byte + 4 MiB.",
    level_note="Sampling; allocation volume as proxy for proportional work; inputs <= 9216 bytes."),
 "C07": dict(
    technique="fuzzing + property-based testing: rapid-driven structure-aware hostile generators over conformant seed frames, exhaustive truncation/byte sweeps, an enumerating sweep of every 16-bit length slot x boundary and wrap-to-zero values, a live-stream script with rejected frames under the race detector, Go native coverage-guided fuzzing (thorough), with a totality monitor (panic / hang / heap / allocation envelope) as oracle",
    level_text="Conformant frames of every kind from the independent encoder are mutated field-aware (structural slots incl. the carried packet's length fields, boundary values, adjacent pairs), byte-wise, spliced, and amplified to the 64 KiB frame limit; every truncation offset and single-byte 0x00/0xff overwrite of seed frames is enumerated; thorough adds 240 s of native coverage-guided fuzzing. Per small frame (half of them built around each action kind in turn) every 16-bit length field is set to every boundary value incl. the values that wrap a 16-bit sum over the container to 0/4/8/16. A stream fed conformant frames interleaved with rejected ones (unknown types, cut frames, undecodable fields, unknown Nicira subtypes) must keep delivering. Every returned error is formatted. Each input must give (message|error), no panic, return within 20 s, < 1 GiB heap growth and allocation within 1 KiB/byte + 4 MiB.",
    level_note="Totality can only be sampled; allocation volume is a proxy for proportional work. A regression corpus of every input that once crashed/hung Parse is replayed at the start of every run."),
 "C14": dict(
    technique="property-based concurrency testing: generated batches run sequentially then concurrently (differential), xid distinctness over sets, Go race detector; schedules sampled",
    level_text="Rounds of 2..64 goroutines draw ids through the shared generator, own generators and message constructors (counter pre-set near 2^32 through the hook in a third of the rounds): all ids pairwise distinct, per-goroutine monotone. Batches of generated build/encode/parse/re-encode programs (rapid.Custom evaluated by seed) must give concurrently exactly the bytes and deep dumps they give sequentially. Everything also runs under -race; a report is a violation.",
    level_note="The Go scheduler is not controllable: interleavings are sampled (GOMAXPROCS varied, barrier start, yields), not enumerated; overlap is measured and reported."),
 "C15": dict(
    technique="exhaustive enumeration (all registered names x mask x spelling; header words, all 2^32 in thorough) + rapid lookup/mutate/lookup histories against an independent width table + header word of complete fields vs their encoding + concurrent lookups with value checks (race detector and plain build)",
    level_text="Every registered name (obtained through the verif hook) x mask on/off x three spellings is compared with a width table transcribed from OF1.3.5 and OVS meta-flow.h; pack/unpack of header words is enumerated (16 classes x 2^16 + all classes x 10 low halves in quick, all 2^32 words in thorough); independence of results is checked by generated lookup/modify/lookup histories, by the stored registry entries afterwards, and concurrently under -race.",
    level_note="Trusts my transcription of the width table (DESIGN.md Appendix A.3); concurrency is sampled (Go scheduler not controllable), the race detector flags unsynchronised access on any executed schedule."),
 "C17": dict(
    technique="property-based testing (rapid) + exhaustive enumeration of all 528 windows of every 32-bit register, against a math/big reference model of the documented calling conventions",
    level_text="All 528 windows x 16 registers x 5 boundary values x 3 conventions are enumerated; windows, values, Go argument types and out-of-range classes for all fixed-width fields (1..16 bytes) are generated; value/mask placement, sizes, header, register equivalence with NewRegMatchField, error-not-panic on unrepresentable input and argument immutability are judged by the model.",
    level_note="Trusts the math/big model (nmfModel in c17_test.go) and the independent width table; the offset-only form is judged by the builder's doc comment (window as wide as the data)."),
 "C19": dict(
    technique="model-based testing (rapid): histories of typed writes read back flat or through nested slice decoders against a byte-slice cursor model; exhaustive sweeps of alignment and short-header cases",
    level_text="Generated write histories are compared byte-for-byte with a cursor model, then read back through arbitrarily nested SliceDecoder windows with value, advance, base offset and absolute alignment checked after every step; SkipAlign is enumerated over base 0..56 x offset 0..40, Encoder.SkipAlign over lengths 0..64, Header.Decode over every start offset 0..8 x remaining length 0..16.",
    level_note="Trusts the cursor model and my reading of SliceDecoder(length, rewind) from its loxigen origin."),
 "C01": dict(
    technique="property-based testing (rapid): API build programs for every controller-originated kind, framing oracle (version/type/header length == bytes == Len()) plus independent wire-model size",
    level_text="Generated build programs over all 17 controller-originated message kinds, every command variant, nested lists up to the 64 KiB frame limit; each encoding is judged against version 4, the kind's type code, header length == bytes produced == Len() before and after encoding. Sampling, not proof: absence of violations is not shown.",
    level_note="Trusts the generator's preconditions (DESIGN.md Appendix B) and the type-code table of harness/spec."),
 "C02": dict(
    technique="property-based testing (rapid) with an independent specification-derived TLV walker (harness/spec) as oracle; builder call histories via a rapid state machine (adder methods as rules, walk after every step)",
    level_text="Every generated message, stand-alone element and builder history is encoded by the library and walked by an independent strict decoder written from OF1.3.5 / nicira-ext.h / meta-flow.h / EXT-230 that advances only by declared lengths and rejects wrong lengths, missing alignment, non-zero padding and unknown codes.",
    level_note="The wire model is my transcription of the specifications (DESIGN.md Appendix A); it is self-tested (Decode(Encode(t))==t) and must not import the library."),
 "C03": dict(
    technique="property-based testing (rapid), dual construction: library bytes decoded by the independent wire model must equal the tree the constructor arguments denote; builder-history state machine; messages built from decoded parts; table of value constants against the specifications; coverage-guided rapid.MakeFuzz driver in thorough",
    level_text="Each case draws constructor arguments once and yields both the library value and the specification tree they denote; the independent decoder must recover exactly that tree (values, optional parts, order) from the library's bytes. Includes messages whose match, instructions or actions were decoded from a flow-stats reply and handed to a fresh message through the adders, matches built in place next to a second message, and every exported value constant a controller writes (ports, commands, flag bits) against the number the specifications assign.",
    level_note="Trusts the wire model and the generator's statement of what each constructor denotes; two OF1.0-layout request bodies are listed known findings."),
 "C04": dict(
    technique="property-based testing (rapid), differential against an independent encoder: conformant switch-originated frames from the wire model (incl. wire-only ONF experimenter OXMs, NXM fields, instructions and standard actions, packet-ins cut by the switch) are parsed by the library and field-wise extracted back into the model's tree; table of the constants a controller compares with; coverage-guided rapid.MakeFuzz driver in thorough",
    level_text="Specification-conformant frames of every switch-originated kind the library has a receiver for are produced by the independent encoder, parsed through openflow13.Parse, and a per-kind extractor over exported fields must rebuild the generated tree exactly (ports, stats records, match fields, instructions, actions, packet payload).",
    level_note="Trusts the wire model's encoder and the extractors in harness/checks/extract_test.go; OF1.0-layout stats replies, the echo payload, bare-header standard actions and packet-ins whose data ends inside the packet headers are listed known findings."),
 "C16": dict(
    technique="exhaustive enumeration of the finite domain against an arithmetic reference (property-based oracle, no sampling)",
    level_text="All 528 bit ranges and all 65,536 offset/width pairs are enumerated and compared with a bit-by-bit reference; within the stated domain this is complete.",
    level_note="Trusts the 10-line reference arithmetic in c16_test.go and that the verif hooks are plain wrappers of the unexported helpers."),
 "C18": dict(
    technique="model-based testing: exhaustive state x operation enumeration + rapid-generated call sequences against a tri-state reference model",
    level_text="Every one of the 6,561 reachable builder states x 16 operations and every call sequence up to length 4 is enumerated; longer sequences are sampled with rapid and checked after every step.",
    level_note="Observes the builder only through the encoded ct_state match field (value/mask bytes), as the property states; trusts the 8-flag tri-state model."),
}
for k in CLAIMED:
    ENGINES[0]["serves_properties"].append(k)

NOT_APPLICABLE = {}
