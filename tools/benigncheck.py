#!/usr/bin/env python3
"""Run the checks against a BENIGN change (a property-preserving edit written by a sub-agent).

  tools/benigncheck.py <src-dir> <name> [--props C05,C06] [--tier quick]

<src-dir> holds patch.diff and meta.json (property, kind, summary, why_benign).  In a scratch worktree
of /repo under /tmp (removed afterwards): the patch applies, builds (with and without -tags verif) and the
baseline suite passes; then the quick checks of the property it was written against and of every property
anchored in a file the patch touches are run against that worktree (--repo, no evidence written).
Every check must stay silent.  The change and the outcome are stored as /verif/benign/<name>/.
"""
import argparse, glob, hashlib, json, os, re, shutil, subprocess, sys, time

ROOT = os.path.dirname(os.path.dirname(os.path.abspath(__file__)))


def sh(cmd, cwd=None, timeout=3600):
    try:
        r = subprocess.run(cmd, shell=True, cwd=cwd, capture_output=True, text=True, timeout=timeout)
        return r.returncode, (r.stdout + r.stderr)
    except subprocess.TimeoutExpired as e:
        return 124, "TIMEOUT " + str(e.stdout or "")[-2000:]


def main():
    ap = argparse.ArgumentParser()
    ap.add_argument("src"); ap.add_argument("name"); ap.add_argument("--props"); ap.add_argument("--tier", default="quick")
    a = ap.parse_args()
    meta = json.load(open(os.path.join(a.src, "meta.json")))
    patch = os.path.abspath(os.path.join(a.src, "patch.diff"))
    touched = set(re.findall(r"^\+\+\+ b/(\S+)", open(patch).read(), re.M))
    props = []
    if a.props:
        props = a.props.split(",")
    else:
        props = [meta["property"]]
        for l in open(os.path.join(ROOT, "properties.jsonl")):
            p = json.loads(l)
            if p["id"] not in props and touched & set(p["anchors"]["files"]):
                props.append(p["id"])
    wt = "/tmp/bn-%s-%d" % (a.name, os.getpid())
    sh("git -C /repo worktree add --detach %s HEAD -q" % wt)
    out = dict(meta); res = {}
    try:
        rc, o = sh("git apply %s" % patch, cwd=wt)
        if rc != 0:
            print("%s: PATCH DOES NOT APPLY: %s" % (a.name, o[-300:])); sys.exit(3)
        rc, o = sh("go build ./... && go build -tags verif ./... && go test -vet=off -count=1 ./openflow13 ./protocol ./ofbase ./common", cwd=wt)
        out["build_and_suite_with_patch"] = "pass" if rc == 0 else "FAIL"
        if rc != 0:
            print("%s: NOT USABLE (build or suite fails) %s" % (a.name, o[-600:])); sys.exit(3)
        for p in props:
            t0 = time.time()
            rc, o = sh("./verif check %s --tier %s --no-evidence --repo %s" % (p, a.tier, wt), cwd=ROOT)
            sigs = [l.strip() for l in o.splitlines() if l.strip().startswith("sig=")]
            res[p] = dict(exit=rc, wall_s=round(time.time() - t0, 1), first_sig=(sigs[0][:400] if sigs else ("" if rc == 0 else o[-400:])))
    finally:
        sh("git -C /repo worktree remove --force %s" % wt)
        h = hashlib.sha1(wt.encode()).hexdigest()[:10]
        for d in glob.glob(os.path.join(ROOT, ".build", "*" + h + "*")) + glob.glob(os.path.join(ROOT, ".work", "alt.*" + h)):
            shutil.rmtree(d, ignore_errors=True) if os.path.isdir(d) else os.remove(d)
    alarms = [p for p, r in res.items() if r["exit"] != 0]
    out["checks_run"] = res; out["tier"] = a.tier; out["alarms"] = alarms
    dst = os.path.join(ROOT, "benign", a.name)
    os.makedirs(dst, exist_ok=True)
    shutil.copy(patch, os.path.join(dst, "patch.diff"))
    json.dump(out, open(os.path.join(dst, "meta.json"), "w"), indent=1)
    print("%s: %s  %s" % (a.name, "ALARM from " + ",".join(alarms) if alarms else "silent (%s)" % ",".join(res), {p: (r["exit"], r["first_sig"][:160]) for p, r in res.items() if r["exit"] != 0}))


main()
