module gomut

go 1.23
