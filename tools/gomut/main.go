// gomut: a small source-level mutator for Go files (standard library only).
//
//	gomut list  <file.go>            -> one line per mutation site: "<index>\t<line>\t<kind>\t<description>"
//	gomut apply <file.go> <index>    -> the mutated source on stdout
//
// Operators: binary operator swaps (arithmetic, relational off-by-one and
// negation, logical, bitwise, shifts), integer literal +1, compound
// assignment swaps (+= -> -=, += -> =), negated if conditions, deleted
// copy() statements. Every mutation replaces a byte range of the original
// source, so the rest of the file (comments, formatting) is untouched.
package main

import (
	"fmt"
	"go/ast"
	"go/parser"
	"go/token"
	"os"
	"strconv"
)

type site struct {
	start, end int // byte range to replace
	repl       string
	line       int
	kind, desc string
}

var binSwap = map[token.Token][]token.Token{
	token.ADD: {token.SUB}, token.SUB: {token.ADD}, token.MUL: {token.QUO}, token.QUO: {token.MUL}, token.REM: {token.QUO},
	token.LSS: {token.LEQ, token.GEQ}, token.LEQ: {token.LSS}, token.GTR: {token.GEQ, token.LEQ}, token.GEQ: {token.GTR},
	token.EQL: {token.NEQ}, token.NEQ: {token.EQL}, token.LAND: {token.LOR}, token.LOR: {token.LAND},
	token.AND: {token.OR}, token.OR: {token.AND}, token.SHL: {token.SHR}, token.SHR: {token.SHL}, token.AND_NOT: {token.AND},
}

func main() {
	if len(os.Args) < 3 {
		fmt.Fprintln(os.Stderr, "usage: gomut list|apply file [index]")
		os.Exit(2)
	}
	path := os.Args[2]
	src, err := os.ReadFile(path)
	if err != nil {
		panic(err)
	}
	fset := token.NewFileSet()
	f, err := parser.ParseFile(fset, path, src, parser.ParseComments)
	if err != nil {
		panic(err)
	}
	off := func(p token.Pos) int { return fset.Position(p).Offset }
	var sites []site
	inConst := false
	ast.Inspect(f, func(n ast.Node) bool {
		switch x := n.(type) {
		case *ast.GenDecl:
			inConst = x.Tok == token.CONST
			if x.Tok == token.IMPORT {
				return false
			}
		case *ast.FuncDecl:
			inConst = false
		case *ast.BinaryExpr:
			// string concatenation: skip
			if bl, ok := x.X.(*ast.BasicLit); ok && bl.Kind == token.STRING {
				break
			}
			if bl, ok := x.Y.(*ast.BasicLit); ok && bl.Kind == token.STRING {
				break
			}
			for _, t := range binSwap[x.Op] {
				s := off(x.OpPos)
				sites = append(sites, site{s, s + len(x.Op.String()), t.String(), fset.Position(x.OpPos).Line, "binop", x.Op.String() + " -> " + t.String()})
			}
		case *ast.BasicLit:
			if x.Kind == token.INT {
				v, err := strconv.ParseInt(x.Value, 0, 64)
				if err == nil {
					k := "intlit"
					if inConst {
						k = "constlit"
					}
					sites = append(sites, site{off(x.Pos()), off(x.End()), strconv.FormatInt(v+1, 10), fset.Position(x.Pos()).Line, k, x.Value + " -> " + strconv.FormatInt(v+1, 10)})
				}
			}
		case *ast.AssignStmt:
			switch x.Tok {
			case token.ADD_ASSIGN:
				s := off(x.TokPos)
				sites = append(sites, site{s, s + 2, "-=", fset.Position(x.TokPos).Line, "assignop", "+= -> -="})
				sites = append(sites, site{s, s + 2, "=", fset.Position(x.TokPos).Line, "assignop", "+= -> ="})
			case token.SUB_ASSIGN:
				s := off(x.TokPos)
				sites = append(sites, site{s, s + 2, "+=", fset.Position(x.TokPos).Line, "assignop", "-= -> +="})
			case token.OR_ASSIGN:
				s := off(x.TokPos)
				sites = append(sites, site{s, s + 2, "&=", fset.Position(x.TokPos).Line, "assignop", "|= -> &="})
			}
		case *ast.IncDecStmt:
			s := off(x.TokPos)
			r := "--"
			if x.Tok == token.DEC {
				r = "++"
			}
			sites = append(sites, site{s, s + 2, r, fset.Position(x.TokPos).Line, "incdec", x.Tok.String() + " -> " + r})
		case *ast.IfStmt:
			if x.Cond != nil {
				s, e := off(x.Cond.Pos()), off(x.Cond.End())
				sites = append(sites, site{s, e, "!(" + string(src[s:e]) + ")", fset.Position(x.Cond.Pos()).Line, "ifneg", "negated condition"})
			}
		case *ast.ExprStmt:
			if c, ok := x.X.(*ast.CallExpr); ok {
				if id, ok := c.Fun.(*ast.Ident); ok && id.Name == "copy" && len(c.Args) == 2 {
					s, e := off(x.Pos()), off(x.End())
					a0, a1 := string(src[off(c.Args[0].Pos()):off(c.Args[0].End())]), string(src[off(c.Args[1].Pos()):off(c.Args[1].End())])
					sites = append(sites, site{s, e, "_, _ = " + a0 + ", " + a1, fset.Position(x.Pos()).Line, "delcopy", "copy(...) deleted"})
				}
			}
		}
		return true
	})
	switch os.Args[1] {
	case "list":
		for i, s := range sites {
			fmt.Printf("%d\t%d\t%s\t%s\n", i, s.line, s.kind, s.desc)
		}
	case "apply":
		i, _ := strconv.Atoi(os.Args[3])
		s := sites[i]
		os.Stdout.Write(src[:s.start])
		os.Stdout.WriteString(s.repl)
		os.Stdout.Write(src[s.end:])
	}
}
