#!/usr/bin/env python3
"""Regenerates /verif/MANIFEST.json from the table below and validates it against the schema."""
import json, os, subprocess, sys
ROOT = os.path.dirname(os.path.dirname(os.path.abspath(__file__)))
sys.path.insert(0, ROOT)
import manifest_table as T

def main():
    checks = []
    for pid in sorted(T.CLAIMED):
        c = T.CLAIMED[pid]
        checks.append(dict(
            property_id=pid,
            quick_cmd="./verif check %s --tier quick" % pid,
            thorough_cmd="./verif check %s --tier thorough" % pid,
            evidence_file="/verif/evidence/%s.json" % pid,
            replay_cmd_template="./verif replay %s {path}" % pid,
            engine=c.get("engine", "rapid+sweeps"),
            level_claimed=dict(category="exploration", text=c["level_text"], design_ref=c.get("design_ref", "DESIGN.md section 10, " + pid)),
            level_note=c["level_note"],
            technique=c["technique"],
        ))
    hooks = subprocess.run(["git", "-C", "/repo", "log", "--format=%H", "--grep", "^verif hooks"], capture_output=True, text=True).stdout.split()
    m = dict(
        version=1,
        setup_cmd="./verif setup",
        hooks=dict(guard="verif (Go build tag)", enable="go test -tags verif (the driver passes it on every build; if the hook files no longer compile against a changed tree it rebuilds without the tag and the checks fall back to public-API substitutes, harness/checks/hooks_off_test.go)",
                   baseline_off_cmd="cd /repo && go test -vet=off -count=1 ./openflow13 ./protocol",
                   source_commits=hooks, add_only=True),
        engines=T.ENGINES,
        checks=checks,
        notes=T.NOTES,
        not_applicable=[dict(property_id=p, reason=r) for p, r in sorted(T.NOT_APPLICABLE.items())],
    )
    out = os.path.join(ROOT, "MANIFEST.json")
    json.dump(m, open(out, "w"), indent=1)
    try:
        import jsonschema
        jsonschema.validate(m, json.load(open("/root/.vp/MANIFEST.schema.json")))
        print("MANIFEST.json valid;", len(checks), "checks")
    except ImportError:
        print("MANIFEST.json written (jsonschema not importable here; run with python3-vt to validate)")

main()
