#!/bin/bash
# usage: tools/mut.sh <name> <prop[,prop]> <file-in-repo> <sed-expr> [tier]
# Applies a one-line mutation to a scratch worktree of /repo, stores the diff as mutants/<name>.patch,
# checks that it compiles and that the existing suite still passes, runs the property's check against
# the mutated tree (driver --repo), removes the worktree. Prints DETECTED/MISSED.
name=$1; props=$2; file=$3; expr=$4; tier=${5:-quick}
wt=/tmp/mut-$name-$$
git -C /repo worktree add --detach $wt HEAD -q || exit 2
trap 'git -C /repo worktree remove --force '$wt'; rm -rf /verif/.build/*$(echo -n '$wt' | sha1sum | cut -c1-10)* /verif/.work/alt.$(echo -n '$wt' | sha1sum | cut -c1-10)' EXIT
cd $wt
sed -i -E "$expr" "$file"
if git diff --quiet; then echo "$name: sed changed nothing"; exit 2; fi
git diff > /verif/mutants/$name.patch
if ! go build ./... 2>/tmp/mut.$$.log; then echo "$name: does not compile"; head /tmp/mut.$$.log; rm /verif/mutants/$name.patch; exit 2; fi
base=$(go test -vet=off -count=1 ./openflow13 ./protocol 2>&1 | grep -c '^ok')
if [ "$base" != 2 ]; then echo "$name: INVALID (existing suite fails with it)"; rm /verif/mutants/$name.patch; exit 2; fi
res=""
for p in ${props//,/ }; do
  (cd /verif && ./verif check $p --tier $tier --no-evidence --repo $wt >/tmp/mut.$$.$p.log 2>&1); rc=$?
  res="$res $p=$rc"
  sig=$(grep -m1 'sig=' /tmp/mut.$$.$p.log | cut -c1-160)
done
echo "{\"properties\": [\"${props//,/\",\"}\"], \"tier\": \"$tier\"}" > /verif/mutants/$name.json
case "$res" in *=1*) echo "$name: DETECTED ($res) $sig";; *) echo "$name: MISSED ($res)";; esac
rm -f /tmp/mut.$$.*
