#!/bin/bash
# usage: tools/mut.sh <name> <prop[,prop]> <file-in-repo> <sed-expr> [tier]
# Applies a one-line mutation to /repo, stores the diff as mutants/<name>.patch, runs the property's check
# against the mutated tree, restores /repo. Prints DETECTED/MISSED.
name=$1; props=$2; file=$3; expr=$4; tier=${5:-quick}
cd /repo || exit 2
git diff --quiet || { echo "/repo dirty"; exit 2; }
sed -i -E "$expr" "$file"
if git diff --quiet; then echo "$name: sed changed nothing"; exit 2; fi
git diff > /verif/mutants/$name.patch
if ! go build ./... 2>/tmp/mut.build.log; then echo "$name: does not compile"; cat /tmp/mut.build.log | head; git checkout -- .; rm /verif/mutants/$name.patch; exit 2; fi
base=$(go test -vet=off -count=1 ./openflow13 ./protocol 2>&1 | grep -c '^ok')
res=""
for p in ${props//,/ }; do
  (cd /verif && ./verif check $p --tier $tier --no-evidence >/tmp/mut.$p.log 2>&1); rc=$?
  res="$res $p=$rc"
done
git checkout -- .
echo "{\"properties\": [\"${props//,/\",\"}\"], \"tier\": \"$tier\", \"baseline_ok_pkgs\": $base}" > /verif/mutants/$name.json
case "$res" in *=1*) echo "$name: DETECTED ($res) baseline_ok=$base/2";; *) echo "$name: MISSED ($res) baseline_ok=$base/2";; esac
