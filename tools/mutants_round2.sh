#!/bin/bash
# second batch of one-line mutants (M-lists of DESIGN.md section 10)
cd /verif
M=tools/mut.sh
$M C04-flowstats-priority C04 openflow13/multipart.go '491s/s.Priority = binary.BigEndian.Uint16\(data\[n:\]\)/s.Priority = binary.BigEndian.Uint16(data[n-2:])/'
$M C04-mask-dropped C04,C05 openflow13/match.go '189s/if m.HasMask \{/if m.HasMask \&\& m.Length < 200 \&\& m.Field != 3 {/'
$M C02-hello-bitmap-len C02,C06 common/header.go '133s/len\(h.Bitmaps\) \* 4/len(h.Bitmaps) * 8/'
$M C09-ipv6-class-nibbles C09 protocol/ipv6.go '52s/\(i.TrafficClass>>4\)&0x0f/(i.TrafficClass>>4)\&0x07/'
$M C09-vlan-plus C09 protocol/ethernet.go '160s/\(tci \| uint16\(v.PCP\)<<13\)/(tci | uint16(v.PCP)<<12)/'
$M C10-hdr-reset-dropped C10 util/stream.go '170s/hdr = 0/hdr = 0 + hdr\&0/; 170s/$/\n\t\t\t\t\tif buf.Len() > 4000 { hdr = 4 }/'
$M C10-frame8-skipped C10 util/stream.go '166s/if msg > 0 \{/if msg > 1 {/'
$M C12-note-alias C12 openflow13/nx_action.go '1383,1384s/copy\(a.Note, data\[n:a.Length\]\)/a.Note = data[n:a.Length]/'
$M C12-buffer-alias C12,C10 util/util.go 's/_, err := b.Buffer.Write\(data\)/b.Buffer = *bytes.NewBuffer(data); var err error/'
$M C07-parse-default-noerr C07 openflow13/openflow13.go 's/err = errors.New\("An unknown v1.0 packet type was received. Parse function will discard data."\)/err = nil/'
$M C07-undecoded-nilnil C07 openflow13/openflow13.go '0,/err = errUndecodedType/s/err = errUndecodedType/err = nil/'
