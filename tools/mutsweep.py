#!/usr/bin/env python3
"""Automated mutation sweep: sample source-level mutants of the library (tools/gomut), keep those that still
compile and pass the library's own test suite, and run the quick checks of every property anchored in the
mutated file against them (scratch worktrees under /tmp, removed afterwards; /repo itself is never touched).

  tools/mutsweep.py --n 600 --workers 6 --seed 1 --out mutsweep/round1.jsonl [--files openflow13/match.go,...]

Each result line: file, index, line, kind, desc, outcome in {nocompile, killed_by_suite, detected:<prop>, survived, error}.
Survivors are candidates for inspection: an equivalent mutant, a mutant outside every property, or a hole in a check.
"""
import argparse, collections, json, os, random, shutil, subprocess, sys, threading, time, hashlib, glob

ROOT = os.path.dirname(os.path.dirname(os.path.abspath(__file__)))
GOMUT = os.path.join(ROOT, ".build", "gomut")
ENV = dict(os.environ, GOFLAGS="-mod=mod", GOPROXY="off", GOSUMDB="off", GOTOOLCHAIN="local")
# slower (race-built) checks last
ORDER = ["C19", "C16", "C18", "C17", "C15", "C02", "C03", "C01", "C06", "C05", "C04", "C09", "C13", "C12", "C08", "C07", "C11", "C10", "C14"]


def sh(cmd, cwd=None, timeout=900):
    try:
        r = subprocess.run(cmd, shell=True, cwd=cwd, capture_output=True, text=True, timeout=timeout, env=ENV)
        return r.returncode, r.stdout + r.stderr
    except subprocess.TimeoutExpired:
        return 124, "TIMEOUT"


def anchors():
    m = collections.defaultdict(list)
    for l in open(os.path.join(ROOT, "properties.jsonl")):
        p = json.loads(l)
        for f in p["anchors"]["files"]:
            m[f].append(p["id"])
    return m


def main():
    ap = argparse.ArgumentParser()
    ap.add_argument("--n", type=int, default=300); ap.add_argument("--workers", type=int, default=5); ap.add_argument("--seed", type=int, default=1)
    ap.add_argument("--out", default="mutsweep/results.jsonl"); ap.add_argument("--files"); ap.add_argument("--kinds"); ap.add_argument("--only", help="earlier result file: re-run its survivors and errors")
    ap.add_argument("--all-props", action="store_true", help="after the properties anchored in the file, run every other property too")
    a = ap.parse_args()
    if not os.path.exists(GOMUT):
        rc, o = sh("go build -o %s ." % GOMUT, cwd=os.path.join(ROOT, "tools", "gomut"))
        if rc: print(o); sys.exit(2)
    anc = anchors()
    files = a.files.split(",") if a.files else sorted(f for f in anc if os.path.exists("/repo/" + f))
    sites = []
    for f in files:
        rc, o = sh("%s list /repo/%s" % (GOMUT, f))
        for l in o.splitlines():
            i, line, kind, desc = l.split("\t")
            if a.kinds and kind not in a.kinds.split(","): continue
            sites.append(dict(file=f, index=int(i), line=int(line), kind=kind, desc=desc))
    rnd = random.Random(a.seed)
    rnd.shuffle(sites)
    if a.only:
        # re-run exactly the survivors / errors of an earlier result file
        keep = set()
        for l in open(os.path.join(ROOT, a.only)):
            r = json.loads(l)
            if r["outcome"].startswith(("survived", "error")):
                keep.add((r["file"], r["index"]))
        sites = [s for s in sites if (s["file"], s["index"]) in keep]
    done = set()
    out = os.path.join(ROOT, a.out)
    os.makedirs(os.path.dirname(out), exist_ok=True)
    if os.path.exists(out):
        for l in open(out):
            r = json.loads(l); done.add((r["file"], r["index"]))
    todo = [s for s in sites if (s["file"], s["index"]) not in done][:a.n]
    print("%d sites, %d already done, running %d" % (len(sites), len(done), len(todo)), flush=True)
    lock = threading.Lock()
    it = iter(todo)

    def worker(w):
        wt = "/tmp/ms-w%d-%d" % (w, os.getpid())
        sh("git -C /repo worktree add --detach %s HEAD -q" % wt)
        try:
            while True:
                with lock:
                    s = next(it, None)
                if s is None: break
                path = os.path.join(wt, s["file"])
                orig = open(path).read()
                rc, mutated = sh("%s apply /repo/%s %d" % (GOMUT, s["file"], s["index"]))
                open(path, "w").write(mutated)
                t0 = time.time()
                res = dict(s)
                try:
                    rc, o = sh("go build ./... && go vet -tags verif ./%s >/dev/null 2>&1; go build -tags verif ./..." % os.path.dirname(s["file"]), cwd=wt, timeout=300)
                    if rc != 0:
                        res["outcome"] = "nocompile"
                    else:
                        rc, o = sh("ulimit -v 8388608; go test -vet=off -count=1 -timeout 120s ./openflow13 ./protocol ./ofbase ./common", cwd=wt, timeout=400)
                        if rc != 0:
                            res["outcome"] = "killed_by_suite"
                        else:
                            props = sorted(anc.get(s["file"], []), key=ORDER.index)
                            if a.all_props:
                                props = props + [p for p in ORDER if p not in props]
                            res["outcome"] = "survived"; res["ran"] = []
                            for p in props:
                                rc, o = sh("./verif check %s --tier quick --no-evidence --repo %s" % (p, wt), cwd=ROOT, timeout=1800)
                                res["ran"].append([p, rc])
                                if rc == 1:
                                    sig = [l.strip() for l in o.splitlines() if l.strip().startswith("sig=")]
                                    res["outcome"] = "detected:" + p; res["sig"] = sig[0][:200] if sig else ""
                                    break
                                if rc not in (0, 1):
                                    res["outcome"] = "error:%s:%d" % (p, rc); res["tail"] = o[-300:]
                                    break
                finally:
                    open(path, "w").write(orig)
                res["wall_s"] = round(time.time() - t0, 1)
                with lock:
                    open(out, "a").write(json.dumps(res) + "\n")
                    print("%s:%d %s %s -> %s (%.0fs)" % (s["file"], s["line"], s["kind"], s["desc"], res["outcome"], res["wall_s"]), flush=True)
        finally:
            sh("git -C /repo worktree remove --force %s" % wt)
            h = hashlib.sha1(wt.encode()).hexdigest()[:10]
            for d in glob.glob(os.path.join(ROOT, ".build", "*" + h + "*")) + glob.glob(os.path.join(ROOT, ".work", "alt.*" + h)):
                shutil.rmtree(d, ignore_errors=True) if os.path.isdir(d) else os.remove(d)

    ths = [threading.Thread(target=worker, args=(i,)) for i in range(a.workers)]
    [t.start() for t in ths]; [t.join() for t in ths]
    c = collections.Counter()
    for l in open(out):
        c[json.loads(l)["outcome"].split(":")[0]] += 1
    print(dict(c))


main()
