#!/bin/bash
# For every "fixed:" line of KNOWN_FINDINGS.txt: revert that commit in a scratch worktree of /repo and run the
# property's quick check there; the violation must come back (a fixed entry suppresses nothing).
# Writes seeded/REVERTS.txt. Reverts that do not apply cleanly (a later fix touched the same lines) are listed as such.
cd "$(dirname "$0")/.." || exit 2
out=seeded/REVERTS.txt
echo "# revert of each repaired defect vs the property's quick check, $(date -u +%Y-%m-%dT%H:%MZ), /repo $(git -C /repo log --format=%h -1)" > $out
grep '^fixed:' KNOWN_FINDINGS.txt | while read -r _ prop hash rest; do
  p=${prop#property=}
  wt=/tmp/revert-$hash-$$
  git -C /repo worktree add --detach $wt HEAD -q || continue
  if (cd $wt && git revert --no-commit $hash >/dev/null 2>&1 && go build ./... 2>/dev/null); then
    ./verif check $p --no-evidence --repo $wt > /tmp/revert.$$.log 2>&1; rc=$?
    sig=$(grep -m1 '^  sig=' /tmp/revert.$$.log | cut -c1-150)
    if [ $rc = 1 ]; then echo "$hash $p: VIOLATION returns  $sig" >> $out; else echo "$hash $p: NOT DETECTED (rc=$rc) ${rest:0:80}" >> $out; fi
  else
    echo "$hash $p: revert does not apply cleanly (later repair on the same lines) ${rest:0:60}" >> $out
  fi
  git -C /repo worktree remove --force $wt
  h=$(echo -n $wt | sha1sum | cut -c1-10); rm -rf .build/*$h* .work/alt.$h
done
cat $out
