#!/bin/bash
# confirm + check the round-2 seeds that have arrived and are not yet processed
cd /verif
for id in "$@"; do
  for x in A B; do
    src=/tmp/seedout2/$id/$x
    y=$([ $x = A ] && echo C || echo D)
    [ -f $src/meta.json ] || continue
    [ -d seeded/$id-$y ] && continue
    python3 tools/seedcheck.py $src $id-$y 2>&1 | tail -1 | cut -c1-300
  done
done
