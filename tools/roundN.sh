#!/bin/bash
# usage: tools/roundN.sh <outdir> <letterA> <letterB> <ids...>   (confirm + check arrived seeds not yet processed)
cd /verif
dir=$1; la=$2; lb=$3; shift 3
for id in "$@"; do
  for x in A B; do
    src=$dir/$id/$x
    y=$([ $x = A ] && echo $la || echo $lb)
    [ -f $src/meta.json ] || continue
    [ -d seeded/$id-$y ] && continue
    python3 tools/seedcheck.py $src $id-$y 2>&1 | tail -1 | cut -c1-300
  done
done
