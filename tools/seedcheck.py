#!/usr/bin/env python3
"""Confirm a seeded change produced by a sub-agent and run the checks against it.

  tools/seedcheck.py <src-dir> <name> [--props C05,C06] [--tier quick] [--keep]

<src-dir> holds patch.diff, demo_test.go, meta.json (property, demo_dir, demo_run, ...).
Steps (all in a scratch worktree of /repo under /tmp, removed afterwards):
  1. demo passes on unmodified HEAD; 2. patch applies, builds, baseline suite passes; 3. demo fails with the patch.
Then the patch is applied to /repo itself, the named properties' checks are run (no evidence written),
and /repo is restored. Confirmed changes are stored as /verif/seeded/<name>/ with the outcome in meta.json.
"""
import argparse, json, os, shutil, subprocess, sys, time

ROOT = os.path.dirname(os.path.dirname(os.path.abspath(__file__)))


def sh(cmd, cwd=None, timeout=900):
    try:
        r = subprocess.run(cmd, shell=True, cwd=cwd, capture_output=True, text=True, timeout=timeout)
        return r.returncode, (r.stdout + r.stderr)
    except subprocess.TimeoutExpired as e:
        return 124, "TIMEOUT " + str(e.stdout or "")[-2000:]


def main():
    ap = argparse.ArgumentParser()
    ap.add_argument("src"); ap.add_argument("name")
    ap.add_argument("--props"); ap.add_argument("--tier", default="quick"); ap.add_argument("--skip-confirm", action="store_true")
    a = ap.parse_args()
    meta = json.load(open(os.path.join(a.src, "meta.json")))
    patch = os.path.abspath(os.path.join(a.src, "patch.diff"))
    demo = os.path.join(a.src, "demo_test.go")
    props = (a.props.split(",") if a.props else meta.get("check_props") or [meta["property"]])
    out = dict(meta)
    for k in ("checks_run", "detected_by", "tier") if True else ():
        out.pop(k, None)
    if not a.skip_confirm:
        wt = "/tmp/sc-%s-%d" % (a.name, os.getpid())
        sh("git -C /repo worktree add --detach %s HEAD -q" % wt)
        try:
            ddir = os.path.join(wt, meta.get("demo_dir", "openflow13"))
            shutil.copy(demo, os.path.join(ddir, "zz_seed_demo_test.go"))
            import re
            mm = re.search(r"go test[^()]*", meta["demo_run"])
            run = mm.group(0).strip() if mm else meta["demo_run"]
            if "-race" in meta["demo_run"] and "-race" not in run:
                run = run.replace("go test", "go test -race", 1)
            rc0, o0 = sh(run, cwd=wt)
            rca, oa = sh("git apply %s" % patch, cwd=wt)
            if rca != 0:
                print("%s: PATCH DOES NOT APPLY to current HEAD: %s" % (a.name, oa[-400:])); sys.exit(3)
            os.remove(os.path.join(ddir, "zz_seed_demo_test.go"))
            rcb, ob = sh("go build ./... && go test -vet=off -count=1 ./openflow13 ./protocol", cwd=wt)
            shutil.copy(demo, os.path.join(ddir, "zz_seed_demo_test.go"))
            rc1, o1 = sh(run, cwd=wt)
            out["confirm"] = dict(demo_on_head=("pass" if rc0 == 0 else "FAIL"), build_and_suite_with_patch=("pass" if rcb == 0 else "FAIL"),
                                  demo_with_patch=("fail" if rc1 != 0 else "PASS"), ran=[run, "go build ./... && go test -vet=off -count=1 ./openflow13 ./protocol"])
            ok = rc0 == 0 and rcb == 0 and rc1 != 0
            if not ok:
                print("%s: NOT CONFIRMED %s" % (a.name, out["confirm"]))
                print((o0 if rc0 else ob if rcb else o1)[-1500:])
                sys.exit(3)
        finally:
            sh("git -C /repo worktree remove --force %s" % wt)
            sh("go clean -testcache")
    # run the checks against a scratch worktree with the patch applied (same driver, --repo)
    wt2 = "/tmp/scr-%s-%d" % (a.name, os.getpid())
    sh("git -C /repo worktree add --detach %s HEAD -q" % wt2)
    res = {}
    try:
        rc, o = sh("git apply %s" % patch, cwd=wt2)
        if rc != 0:
            print("apply failed", o); sys.exit(3)
        for p in props:
            t0 = time.time()
            rc, o = sh("./verif check %s --tier %s --no-evidence --repo %s" % (p, a.tier, wt2), cwd=ROOT, timeout=3600)
            sigs = [l.strip() for l in o.splitlines() if l.strip().startswith("sig=")]
            res[p] = dict(exit=rc, wall_s=round(time.time() - t0, 1), first_sig=(sigs[0][:300] if sigs else ""))
    finally:
        sh("git -C /repo worktree remove --force %s" % wt2)
        import glob
        for d in glob.glob(os.path.join(ROOT, ".build", "*" + __import__("hashlib").sha1(wt2.encode()).hexdigest()[:10] + "*")) + glob.glob(os.path.join(ROOT, ".work", "alt.*" + __import__("hashlib").sha1(wt2.encode()).hexdigest()[:10])):
            shutil.rmtree(d, ignore_errors=True) if os.path.isdir(d) else os.remove(d)
    detected = [p for p, r in res.items() if r["exit"] == 1]
    out["checks_run"] = res
    out["tier"] = a.tier
    out["detected_by"] = detected
    dst = os.path.join(ROOT, "seeded", a.name)
    os.makedirs(dst, exist_ok=True)
    if os.path.abspath(a.src) != os.path.abspath(dst):
        shutil.copy(patch, os.path.join(dst, "patch.diff"))
        shutil.copy(demo, os.path.join(dst, "demo_test.go"))
    json.dump(out, open(os.path.join(dst, "meta.json"), "w"), indent=1)
    print("%s: %s  %s" % (a.name, "DETECTED by " + ",".join(detected) if detected else "MISSED", {p: (r["exit"], r["first_sig"][:140]) for p, r in res.items()}))


main()
