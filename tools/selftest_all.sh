#!/bin/bash
# Re-confirms every seeded change (demo passes on HEAD, patch applies/builds/suite passes, demo fails with it)
# and runs the claimed property's quick check against it; then every one-line mutant of mutants/.
# Writes seeded/RESULTS.txt. Usage: tools/selftest_all.sh [tier]
cd "$(dirname "$0")/.." || exit 2
tier=${1:-quick}
out=seeded/RESULTS.txt
echo "# seeded changes and mutants vs checks (tier=$tier), $(date -u +%Y-%m-%dT%H:%MZ), /repo $(git -C /repo log --format=%h -1)" > $out
# seeds in parallel (scratch worktrees are per seed), results in directory order
tmp=$(mktemp -d /tmp/selftest.XXXXXX)
ls -d seeded/C??-?/ | xargs -P ${SELFTEST_JOBS:-5} -I{} sh -c 'n=$(basename {}); python3 tools/seedcheck.py {} $n --tier '$tier' 2>&1 | tail -1 | cut -c1-260 > '$tmp'/$n.txt'
cat $tmp/*.txt >> $out
rm -rf $tmp
for p in mutants/*.patch; do
  n=$(basename $p .patch)
  props=$(python3 -c "import json;print(','.join(json.load(open('mutants/$n.json'))['properties']))" 2>/dev/null || echo ${n%%-*})
  wt=/tmp/mutrun-$n-$$
  git -C /repo worktree add --detach $wt HEAD -q
  if git -C $wt apply $PWD/$p 2>/dev/null && (cd $wt && go build ./... 2>/dev/null); then
    res=""
    for pr in ${props//,/ }; do ./verif check $pr --tier $tier --no-evidence --repo $wt >/tmp/mutrun.$$.log 2>&1; res="$res $pr=$?"; done
    case "$res" in *=1*) echo "mutant $n: DETECTED ($res)" >> $out;; *) echo "mutant $n: MISSED ($res)" >> $out;; esac
  else
    echo "mutant $n: does not apply/build on current HEAD" >> $out
  fi
  git -C /repo worktree remove --force $wt
  h=$(echo -n $wt | sha1sum | cut -c1-10); rm -rf .build/*$h* .work/alt.$h
done
cat $out
