#!/bin/bash
# Runs every property's quick check at several VERIF_SEED values; prints one line per run that is not a clean pass.
# usage: tools/soak.sh "<seeds>" [tier]
tier=${2:-quick}
fail=0
for s in $1; do
  for p in C01 C02 C03 C04 C05 C06 C07 C08 C09 C10 C11 C12 C13 C14 C15 C16 C17 C18 C19; do
    out=$(VERIF_SEED=$s ./verif check $p --tier $tier --no-evidence 2>&1); rc=$?
    if [ $rc != 0 ]; then fail=1; echo "seed=$s $p rc=$rc"; echo "$out" | grep -v '^KNOWN' | tail -5 | cut -c1-400; fi
  done
  echo "seed $s done"
done
echo "soak finished fail=$fail"
