# Job table of the driver (imported by ./verif). J(test, checks=(quick, thorough), shards=(q, t), race, limit=(q, t) seconds, fuzz=(target, seconds))
def table(J):
    return {
        "C01": [J("TestC01", checks=(6000, 40000), shards=(2, 16))],
        "C02": [J("TestC02", checks=(5000, 40000), shards=(2, 16)), J("TestC02Histories", checks=(400, 6000), shards=(2, 8)), J("TestC02Constants")],
        "C03": [J("TestC03", checks=(6000, 40000), shards=(2, 16), fuzz=("FuzzC03", 120)), J("TestC03Histories", checks=(400, 6000), shards=(2, 8)), J("TestC03Constants")],
        "C04": [J("TestC04", checks=(6000, 40000), shards=(2, 16), fuzz=("FuzzC04", 120)), J("TestC04Constants")],
        "C05": [J("TestC05", checks=(8000, 60000), shards=(4, 16), fuzz=("FuzzC05", 120))],
        "C06": [J("TestC06", checks=(8000, 60000), shards=(4, 16))],
        "C07": [J("TestC07", checks=(40000, 250000), shards=(4, 16), limit=(600, 2400)), J("TestC07Trunc", shards=(4, 16), limit=(600, 2400), fuzz=("FuzzC07Parse", 240)), J("TestC07Stream", race=True, checks=(40, 400), shards=(2, 8), limit=(900, 3000)), J("TestC07LenSweep", checks=(1200, 20000), shards=(4, 16), limit=(600, 2400))],
        "C08": [J("TestC08", checks=(40000, 400000), shards=(4, 16), limit=(600, 2400)), J("TestC08Sweep", shards=(4, 16), limit=(600, 2400), fuzz=("FuzzC08", 240))],
        "C09": [J("TestC09", checks=(8000, 60000), shards=(3, 16)), J("TestC09Sweep", shards=(5, 5))],
        "C10": [J("TestC10", race=True, checks=(150, 1500), shards=(4, 16), limit=(900, 3000)), J("TestC10Parse", race=True, checks=(60, 600), shards=(2, 8), limit=(900, 3000))],
        "C11": [J("TestC11", race=True, checks=(150, 1500), shards=(4, 16), limit=(900, 3000)), J("TestC11Idle", race=True, shards=(1, 1))],
        "C12": [J("TestC12", checks=(8000, 60000), shards=(4, 16))],
        "C13": [J("TestC13", checks=(8000, 60000), shards=(4, 16))],
        "C14": [J("TestC14Cold", race=True, shards=(6, 16)), J("TestC14Xid", race=True, shards=(1, 4)), J("TestC14Batch", race=True, checks=(60, 500), shards=(2, 8)), J("TestC14Xid", shards=(1, 8))],
        "C15": [J("TestC15", checks=(4000, 60000), shards=(1, 4)), J("TestC15Words", shards=(4, 16)), J("TestC15Race", race=True, shards=(1, 4)), J("TestC15Race", shards=(4, 16))],
        "C16": [J("TestC16"), J("TestC16Histories", checks=(4000, 60000), shards=(1, 8))],
        "C19": [J("TestC19", checks=(20000, 300000), shards=(2, 16))],
        "C17": [J("TestC17", checks=(30000, 300000), shards=(2, 16))],
        "C18": [J("TestC18", checks=(2000, 40000))],
    }
